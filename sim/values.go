package main

import (
	"fmt"
	"math"
	"reflect"
	"sort"
	"strings"
	"time"

	"verif/sim/ref"
)

var timeType = reflect.TypeFor[time.Time]()

// isSQLNull: database/sql's NullInt64, NullString, … {value, Valid}.
func isSQLNull(t reflect.Type) bool {
	return t.Kind() == reflect.Struct && t.PkgPath() == "database/sql" && t.NumField() == 2 && t.Field(1).Name == "Valid"
}

// nullWrapper: github.com/unravelin/null's types embed one sql.NullX.
func nullWrapper(t reflect.Type) bool {
	return t.Kind() == reflect.Struct && t.NumField() == 1 && t.Field(0).Anonymous && isSQLNull(t.Field(0).Type)
}

// ---------------------------------------------------------------------------
// Value generation (reflect-driven, from the plan's value seed)

// GenOpts bounds generated values.
type GenOpts struct {
	MaxLen   int // strings, byte slices
	MaxItems int // slices, maps
}

func sizeOpts(class int) GenOpts {
	switch class {
	case 0:
		return GenOpts{MaxLen: 3, MaxItems: 2}
	case 1:
		return GenOpts{MaxLen: 12, MaxItems: 4}
	case 2:
		return GenOpts{MaxLen: 80, MaxItems: 9}
	default:
		return GenOpts{MaxLen: 700, MaxItems: 24}
	}
}

var boundaryInts = []int64{0, 1, -1, 63, 64, -64, -65, 8191, 8192, -8192, -8193, 1 << 20, -(1 << 20), 1<<31 - 1, -(1 << 31), 1 << 40, math.MaxInt64, math.MinInt64}

func genInt64(r *Rng) int64 {
	switch r.Intn(4) {
	case 0:
		return boundaryInts[r.Intn(len(boundaryInts))]
	case 1:
		return int64(r.Intn(200)) - 100
	default:
		return int64(r.Uint64() >> uint(r.Intn(64)))
	}
}

const alphabet = "abcdefghijklmnopqrstuvwxyzABCDEFGHIJKLMNOPQRSTUVWXYZ0123456789 _-é世"

func genString(r *Rng, max int) string {
	n := r.Intn(max + 1)
	if r.P(1, 6) {
		n = 0
	}
	var sb strings.Builder
	runes := []rune(alphabet)
	for sb.Len() < n {
		sb.WriteRune(runes[r.Intn(len(runes))])
	}
	return sb.String()
}

func genBytes(r *Rng, max int) []byte {
	n := r.Intn(max + 1)
	if r.P(1, 6) {
		return nil
	}
	b := make([]byte, n)
	for i := range b {
		b[i] = byte(r.Intn(256))
	}
	return b
}

func genTime(r *Rng) time.Time {
	if r.P(1, 6) {
		return time.Time{}
	}
	sec := int64(r.Range(-2208988800/60, 7258118400/60)) * 60 // 1900..2200
	sec += int64(r.Intn(60))
	nsec := 0
	switch r.Intn(4) {
	case 0:
		nsec = r.Intn(1000) * 1e6
	case 1:
		nsec = r.Intn(1e9)
	}
	off := 0
	switch r.Intn(4) {
	case 0:
		off = r.Range(-14*60, 14*60) * 60
	case 1:
		// a small pool, so that the same (not whole-hour) offsets recur within a file
		off = r.PickInt([]int{5*3600 + 45*60, -(3*3600 + 30*60), 19800, 3600, -9 * 3600, 12*3600 + 45*60})
	}
	loc := time.UTC
	if off != 0 {
		loc = time.FixedZone("", off)
	}
	return time.Unix(sec, int64(nsec)).In(loc)
}

// GenValue fills an addressable value of any curated shape.
func GenValue(v reflect.Value, r *Rng, o GenOpts, tag reflect.StructTag) {
	t := v.Type()
	if t == timeType {
		v.Set(reflect.ValueOf(genTime(r)))
		return
	}
	switch t.Kind() {
	case reflect.Bool:
		v.SetBool(r.Bool())
	case reflect.Int64, reflect.Int:
		v.SetInt(genInt64(r))
	case reflect.Int32:
		v.SetInt(int64(int32(genInt64(r))))
	case reflect.Int16:
		v.SetInt(int64(int16(genInt64(r))))
	case reflect.Float64:
		switch r.Intn(5) {
		case 0:
			v.SetFloat(0)
		case 1:
			v.SetFloat(float64(r.Intn(2000)-1000) / 8)
		case 2:
			v.SetFloat(math.Inf(1 - 2*r.Intn(2)))
		default:
			f := math.Float64frombits(r.Uint64())
			if math.IsNaN(f) {
				f = 1.5
			}
			v.SetFloat(f)
		}
	case reflect.Float32:
		f := math.Float32frombits(r.Uint32())
		if f != f || r.P(1, 4) {
			f = float32(r.Intn(2000)-1000) / 8
		}
		v.SetFloat(float64(f))
	case reflect.String:
		v.SetString(genString(r, o.MaxLen))
	case reflect.Slice:
		if t.Elem().Kind() == reflect.Uint8 {
			v.SetBytes(genBytes(r, o.MaxLen))
			return
		}
		n := r.Intn(o.MaxItems + 1)
		if r.P(1, 6) {
			return // nil
		}
		s := reflect.MakeSlice(t, n, n)
		for i := 0; i < n; i++ {
			GenValue(s.Index(i), r, o, "")
		}
		v.Set(s)
	case reflect.Uint8:
		v.SetUint(uint64(r.Intn(256)))
	case reflect.Array:
		for i := 0; i < t.Len(); i++ {
			GenValue(v.Index(i), r, o, "")
		}
	case reflect.Map:
		n := r.Intn(o.MaxItems + 1)
		if strings.Contains(tag.Get("verif"), "max1") && n > 1 {
			n = 1
		}
		if r.P(1, 6) {
			return
		}
		m := reflect.MakeMapWithSize(t, n)
		for i := 0; i < n; i++ {
			k := fmt.Sprintf("k%d_%s", i, genString(r, 4))
			e := reflect.New(t.Elem()).Elem()
			GenValue(e, r, o, "")
			m.SetMapIndex(reflect.ValueOf(k), e)
		}
		v.Set(m)
	case reflect.Pointer:
		// A nil pointer (at any level) to a slice or map has no encoding in
		// this library: such chains are generated non-nil.
		end := t
		for end.Kind() == reflect.Pointer {
			end = end.Elem()
		}
		mustNonNil := (end.Kind() == reflect.Slice && end.Elem().Kind() != reflect.Uint8) || end.Kind() == reflect.Map
		if !mustNonNil && r.P(1, 3) {
			return
		}
		p := reflect.New(t.Elem())
		GenValue(p.Elem(), r, o, tag)
		// A non-nil pointer to a nil pointer has no Avro representation the
		// library can write (a matter for the round-trip property, not for
		// the ones simulated here): keep inner levels non-nil.
		if nullWrapper(t.Elem()) && !p.Elem().Field(0).Field(1).Bool() {
			// a non-nil pointer to an invalid wrapper is written as its (zero)
			// payload, not as null: generate pointees valid
			p.Elem().Field(0).Field(1).SetBool(true)
		}
		for e := p.Elem(); e.Kind() == reflect.Pointer && e.IsNil(); e = e.Elem() {
			q := reflect.New(e.Type().Elem())
			if q.Elem().Kind() != reflect.Pointer {
				GenValue(q.Elem(), r, o, tag)
			}
			e.Set(q)
		}
		v.Set(p)
	case reflect.Struct:
		for i := 0; i < t.NumField(); i++ {
			GenValue(v.Field(i), r, o, t.Field(i).Tag)
		}
		if isSQLNull(t) && !v.FieldByName("Valid").Bool() {
			v.Set(reflect.Zero(t)) // an invalid wrapper is null: its payload carries nothing
		}
	default:
		panic("GenValue: unsupported kind " + t.Kind().String())
	}
}

// GenValues builds n addressable values of type t from a value seed.
func GenValues(t reflect.Type, n int, vseed uint64, class int) []reflect.Value {
	r := NewRng(vseed, 0x7a1)
	o := sizeOpts(class)
	out := make([]reflect.Value, n)
	for i := range out {
		v := reflect.New(t).Elem()
		GenValue(v, r, o, "")
		out[i] = v
	}
	return out
}

// ---------------------------------------------------------------------------
// Deep copy into ordinary, freshly allocated Go memory

func DeepCopy(v reflect.Value) reflect.Value {
	out := reflect.New(v.Type()).Elem()
	deepCopyInto(out, v)
	return out
}

func deepCopyInto(dst, src reflect.Value) {
	t := src.Type()
	if t == timeType {
		dst.Set(src)
		return
	}
	switch t.Kind() {
	case reflect.String:
		dst.SetString(strings.Clone(src.String()))
	case reflect.Slice:
		if src.IsNil() {
			return
		}
		s := reflect.MakeSlice(t, src.Len(), src.Len())
		for i := 0; i < src.Len(); i++ {
			deepCopyInto(s.Index(i), src.Index(i))
		}
		dst.Set(s)
	case reflect.Array:
		for i := 0; i < src.Len(); i++ {
			deepCopyInto(dst.Index(i), src.Index(i))
		}
	case reflect.Map:
		if src.IsNil() {
			return
		}
		m := reflect.MakeMapWithSize(t, src.Len())
		it := src.MapRange()
		for it.Next() {
			k := reflect.New(t.Key()).Elem()
			deepCopyInto(k, it.Key())
			e := reflect.New(t.Elem()).Elem()
			deepCopyInto(e, it.Value())
			m.SetMapIndex(k, e)
		}
		dst.Set(m)
	case reflect.Pointer:
		if src.IsNil() {
			return
		}
		p := reflect.New(t.Elem())
		deepCopyInto(p.Elem(), src.Elem())
		dst.Set(p)
	case reflect.Struct:
		for i := 0; i < t.NumField(); i++ {
			deepCopyInto(dst.Field(i), src.Field(i))
		}
	default:
		dst.Set(src)
	}
}

// ---------------------------------------------------------------------------
// Equality up to the documented normalisations

// EqualNorm reports whether a and b are equal with nil ≡ empty for slices, maps
// and byte strings, times compared by instant and offset, floats by bits.
// On difference it returns a path describing the first mismatch.
func EqualNorm(a, b reflect.Value) (bool, string) {
	return equalNorm(a, b, "")
}

func equalNorm(a, b reflect.Value, path string) (bool, string) {
	t := a.Type()
	if t != b.Type() {
		return false, path + ": type"
	}
	if t == timeType {
		x, y := a.Interface().(time.Time), b.Interface().(time.Time)
		_, ox := x.Zone()
		_, oy := y.Zone()
		if x.IsZero() && y.IsZero() {
			return true, ""
		}
		if !x.Equal(y) || ox != oy {
			return false, fmt.Sprintf("%s: time %v != %v", path, x, y)
		}
		return true, ""
	}
	switch t.Kind() {
	case reflect.Float32, reflect.Float64:
		if math.Float64bits(a.Float()) != math.Float64bits(b.Float()) {
			return false, fmt.Sprintf("%s: %v != %v", path, a.Float(), b.Float())
		}
	case reflect.Slice:
		if a.Len() != b.Len() {
			return false, fmt.Sprintf("%s: len %d != %d", path, a.Len(), b.Len())
		}
		for i := 0; i < a.Len(); i++ {
			if ok, p := equalNorm(a.Index(i), b.Index(i), fmt.Sprintf("%s[%d]", path, i)); !ok {
				return false, p
			}
		}
	case reflect.Array:
		for i := 0; i < a.Len(); i++ {
			if ok, p := equalNorm(a.Index(i), b.Index(i), fmt.Sprintf("%s[%d]", path, i)); !ok {
				return false, p
			}
		}
	case reflect.Map:
		if a.Len() != b.Len() {
			return false, fmt.Sprintf("%s: map len %d != %d", path, a.Len(), b.Len())
		}
		keys := a.MapKeys()
		sort.Slice(keys, func(i, j int) bool { return keys[i].String() < keys[j].String() })
		for _, k := range keys {
			bv := b.MapIndex(k)
			if !bv.IsValid() {
				return false, fmt.Sprintf("%s: key %q missing", path, k.String())
			}
			if ok, p := equalNorm(a.MapIndex(k), bv, fmt.Sprintf("%s{%q}", path, k.String())); !ok {
				return false, p
			}
		}
	case reflect.Pointer:
		if a.IsNil() != b.IsNil() {
			return false, fmt.Sprintf("%s: nil %v != %v", path, a.IsNil(), b.IsNil())
		}
		if !a.IsNil() {
			return equalNorm(a.Elem(), b.Elem(), path+"*")
		}
	case reflect.Struct:
		for i := 0; i < t.NumField(); i++ {
			if ok, p := equalNorm(a.Field(i), b.Field(i), path+"."+t.Field(i).Name); !ok {
				return false, p
			}
		}
	case reflect.String:
		if a.String() != b.String() {
			return false, fmt.Sprintf("%s: %q != %q", path, clip(a.String()), clip(b.String()))
		}
	case reflect.Bool:
		if a.Bool() != b.Bool() {
			return false, path + ": bool"
		}
	case reflect.Int, reflect.Int16, reflect.Int32, reflect.Int64:
		if a.Int() != b.Int() {
			return false, fmt.Sprintf("%s: %d != %d", path, a.Int(), b.Int())
		}
	case reflect.Uint8:
		if a.Uint() != b.Uint() {
			return false, fmt.Sprintf("%s: %d != %d", path, a.Uint(), b.Uint())
		}
	default:
		panic("EqualNorm: unsupported kind " + t.Kind().String())
	}
	return true, ""
}

func clip(s string) string {
	if len(s) > 24 {
		return s[:24] + "…"
	}
	return s
}

// Describe renders a value compactly for evidence samples and messages.
func Describe(v reflect.Value) string {
	s := fmt.Sprintf("%+v", describeIface(v))
	if len(s) > 200 {
		s = s[:200] + "…"
	}
	return s
}

func describeIface(v reflect.Value) any { return Render(v) }

// Render is a canonical, address-free rendering of a value (pointers are
// followed, map keys sorted, times by instant and offset).
func Render(v reflect.Value) string {
	var sb strings.Builder
	render(&sb, v)
	return sb.String()
}

func render(sb *strings.Builder, v reflect.Value) {
	t := v.Type()
	if t == timeType {
		x := v.Interface().(time.Time)
		_, off := x.Zone()
		if x.IsZero() {
			sb.WriteString("time(zero)")
		} else {
			fmt.Fprintf(sb, "time(%d,%d)", x.UnixNano(), off)
		}
		return
	}
	switch t.Kind() {
	case reflect.Pointer:
		if v.IsNil() {
			sb.WriteString("nil")
			return
		}
		sb.WriteByte('&')
		render(sb, v.Elem())
	case reflect.Struct:
		sb.WriteByte('{')
		for i := 0; i < t.NumField(); i++ {
			if i > 0 {
				sb.WriteByte(' ')
			}
			sb.WriteString(t.Field(i).Name)
			sb.WriteByte(':')
			render(sb, v.Field(i))
		}
		sb.WriteByte('}')
	case reflect.Slice:
		if t.Elem().Kind() == reflect.Uint8 {
			fmt.Fprintf(sb, "%x", v.Bytes())
			return
		}
		sb.WriteByte('[')
		for i := 0; i < v.Len(); i++ {
			if i > 0 {
				sb.WriteByte(' ')
			}
			render(sb, v.Index(i))
		}
		sb.WriteByte(']')
	case reflect.Array:
		sb.WriteByte('[')
		for i := 0; i < v.Len(); i++ {
			if i > 0 {
				sb.WriteByte(' ')
			}
			render(sb, v.Index(i))
		}
		sb.WriteByte(']')
	case reflect.Map:
		keys := v.MapKeys()
		sort.Slice(keys, func(i, j int) bool { return keys[i].String() < keys[j].String() })
		sb.WriteString("map[")
		for i, k := range keys {
			if i > 0 {
				sb.WriteByte(' ')
			}
			fmt.Fprintf(sb, "%q:", k.String())
			render(sb, v.MapIndex(k))
		}
		sb.WriteByte(']')
	case reflect.String:
		fmt.Fprintf(sb, "%q", v.String())
	case reflect.Float32, reflect.Float64:
		fmt.Fprintf(sb, "%x", math.Float64bits(v.Float()))
	default:
		fmt.Fprintf(sb, "%v", v.Interface())
	}
}

// ---------------------------------------------------------------------------
// Harness-own schema derivation and Go value -> datum conversion (reference
// writer input). Written from the documented mapping; shares no code with the
// library's schema generator.

func jsonName(f reflect.StructField) (string, bool) {
	if !f.IsExported() {
		return "", false
	}
	tag := f.Tag.Get("json")
	name, opts, _ := strings.Cut(tag, ",")
	if name == "-" {
		return "", false
	}
	if name == "" {
		name = f.Name
	}
	_ = opts
	return name, true
}

func hasOmitEmpty(f reflect.StructField) bool {
	_, opts, _ := strings.Cut(f.Tag.Get("json"), ",")
	for _, o := range strings.Split(opts, ",") {
		if o == "omitempty" {
			return true
		}
	}
	return false
}

// SchemaOf derives the reference schema of a curated Go type.
func SchemaOf(t reflect.Type) *ref.Schema {
	if t == timeType {
		return ref.Nullable(ref.Prim("string"))
	}
	if nullWrapper(t) {
		inner := t.Field(0).Type.Field(0).Type
		if inner == timeType {
			return ref.Nullable(ref.Prim("string"))
		}
		return ref.Nullable(SchemaOf(inner))
	}
	switch t.Kind() {
	case reflect.Bool:
		return ref.Prim("boolean")
	case reflect.Int, reflect.Int16, reflect.Int32, reflect.Int64:
		return ref.Prim("long")
	case reflect.Float32, reflect.Float64:
		return ref.Prim("double")
	case reflect.String:
		return ref.Prim("string")
	case reflect.Slice:
		if t.Elem().Kind() == reflect.Uint8 {
			return ref.Prim("bytes")
		}
		return &ref.Schema{Kind: "array", Items: SchemaOf(t.Elem())}
	case reflect.Array:
		if t.Elem().Kind() == reflect.Uint8 {
			return &ref.Schema{Kind: "fixed", Name: fmt.Sprintf("fixed%d", t.Len()), Size: t.Len()}
		}
	case reflect.Map:
		return &ref.Schema{Kind: "map", Values: SchemaOf(t.Elem())}
	case reflect.Pointer:
		u := SchemaOf(t.Elem())
		if u.Kind == "union" || u.Kind == "array" || u.Kind == "map" {
			return u
		}
		return ref.Nullable(u)
	case reflect.Struct:
		s := &ref.Schema{Kind: "record", Name: t.Name()}
		if s.Name == "" {
			s.Name = "anon"
		}
		for i := 0; i < t.NumField(); i++ {
			f := t.Field(i)
			name, ok := jsonName(f)
			if !ok {
				continue
			}
			fs := SchemaOf(f.Type)
			if hasOmitEmpty(f) && fs.Kind != "union" {
				fs = ref.Nullable(fs)
			}
			s.Fields = append(s.Fields, ref.Field{Name: name, Type: fs})
		}
		return s
	}
	panic("SchemaOf: unsupported type " + t.String())
}

// uniqueFixedNames makes repeated fixed definitions legal (each named type
// may be defined once).
func uniqueFixedNames(s *ref.Schema, seen map[string]int) {
	if s == nil {
		return
	}
	if s.Kind == "fixed" {
		seen[s.Name]++
		if seen[s.Name] > 1 {
			s.Name = fmt.Sprintf("%s_%d", s.Name, seen[s.Name])
		}
	}
	uniqueFixedNames(s.Items, seen)
	uniqueFixedNames(s.Values, seen)
	for _, f := range s.Fields {
		uniqueFixedNames(f.Type, seen)
	}
	for _, b := range s.Branches {
		uniqueFixedNames(b, seen)
	}
}

func isZero(v reflect.Value) bool {
	if v.Type() == timeType {
		return v.Interface().(time.Time).IsZero()
	}
	switch v.Kind() {
	case reflect.Slice, reflect.Map:
		return v.Len() == 0
	}
	return v.IsZero()
}

// splitter decides how a collection of n items is blocked by the reference
// writer; nil = single block, unsized.
type splitter func(n int) (split []int, sized bool)

// ToDatum converts a Go value to the datum the reference writer encodes under
// schema s (which must have been derived from the value's type, possibly
// with unions swapped).
func ToDatum(s *ref.Schema, v reflect.Value, omit bool, sp splitter) ref.Datum {
	if s.Kind == "union" {
		nb, vb := s.NullBranch(), s.NonNullBranch()
		isNull := false
		switch {
		case v.Kind() == reflect.Pointer:
			// pointer chain: nil at any level means null
			for v.Kind() == reflect.Pointer {
				if v.IsNil() {
					isNull = true
					break
				}
				v = v.Elem()
			}
		}
		if !isNull && nullWrapper(v.Type()) {
			if !v.Field(0).Field(1).Bool() {
				isNull = true
			} else {
				v = v.Field(0).Field(0)
				if v.Type() == timeType {
					return &ref.Union{Branch: vb, Val: v.Interface().(time.Time).Format(time.RFC3339Nano)}
				}
				return &ref.Union{Branch: vb, Val: ToDatum(s.Branches[vb], v, false, sp)}
			}
		}
		if !isNull && v.Type() == timeType && v.Interface().(time.Time).IsZero() {
			isNull = true
		}
		if !isNull && omit && isZero(v) {
			isNull = true
		}
		if isNull {
			return &ref.Union{Branch: nb, Val: nil}
		}
		return &ref.Union{Branch: vb, Val: ToDatum(s.Branches[vb], v, false, sp)}
	}
	for v.Kind() == reflect.Pointer {
		if v.IsNil() {
			// pointer to slice / map: nil is the empty collection
			v = reflect.Zero(v.Type().Elem())
			continue
		}
		v = v.Elem()
	}
	if v.Type() == timeType {
		return v.Interface().(time.Time).Format(time.RFC3339Nano)
	}
	switch s.Kind {
	case "boolean":
		return v.Bool()
	case "long", "int":
		return v.Int()
	case "double":
		return v.Float()
	case "float":
		return float32(v.Float())
	case "string":
		return v.String()
	case "bytes":
		return append([]byte{}, v.Bytes()...)
	case "fixed":
		b := make([]byte, v.Len())
		for i := range b {
			b[i] = byte(v.Index(i).Uint())
		}
		return b
	case "array":
		a := &ref.Arr{}
		for i := 0; i < v.Len(); i++ {
			a.Items = append(a.Items, ToDatum(s.Items, v.Index(i), false, sp))
		}
		if sp != nil {
			a.Split, a.Sized = sp(len(a.Items))
		}
		return a
	case "map":
		m := &ref.Map{}
		keys := v.MapKeys()
		sort.Slice(keys, func(i, j int) bool { return keys[i].String() < keys[j].String() })
		for _, k := range keys {
			m.Keys = append(m.Keys, k.String())
			m.Vals = append(m.Vals, ToDatum(s.Values, v.MapIndex(k), false, sp))
		}
		if sp != nil {
			m.Split, m.Sized = sp(len(m.Keys))
		}
		return m
	case "record":
		r := &ref.Rec{}
		t := v.Type()
		fi := 0
		for i := 0; i < t.NumField(); i++ {
			f := t.Field(i)
			if _, ok := jsonName(f); !ok {
				continue
			}
			r.Fields = append(r.Fields, ToDatum(s.Fields[fi].Type, v.Field(i), hasOmitEmpty(f), sp))
			fi++
		}
		return r
	}
	panic("ToDatum: unsupported schema kind " + s.Kind)
}
