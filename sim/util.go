package main

import (
	"crypto/sha256"
	"encoding/hex"
	"fmt"
	"regexp"
	"runtime"
	"sort"
	"strings"
)

const libPrefix = "github.com/philpearl/avro"

// panicSite returns the innermost function of the library on the stack of a
// panic being recovered (call from inside the deferred function), plus the
// panic class is determined by the caller.
func panicSite() string {
	pcs := make([]uintptr, 64)
	n := runtime.Callers(2, pcs)
	frames := runtime.CallersFrames(pcs[:n])
	first := ""
	for {
		f, more := frames.Next()
		if strings.HasPrefix(f.Function, libPrefix) {
			return normFunc(f.Function)
		}
		if first == "" && !strings.HasPrefix(f.Function, "runtime.") && !strings.HasPrefix(f.Function, "main.") {
			first = f.Function
		}
		if !more {
			break
		}
	}
	if first != "" {
		return "outside-library:" + first
	}
	return "unknown"
}

var genericRe = regexp.MustCompile(`\[[^\]]*\]`)

func normFunc(f string) string {
	f = strings.TrimPrefix(f, libPrefix)
	f = strings.TrimPrefix(f, ".")
	f = strings.TrimPrefix(f, "/")
	f = genericRe.ReplaceAllString(f, "")
	return f
}

var digitsRe = regexp.MustCompile(`-?[0-9]+`)
var quotedRe = regexp.MustCompile(`"[^"]*"`)
var hexRe = regexp.MustCompile(`\b[0-9A-F]{16,}\b`)

// normMsg turns an error or panic message into its class: digits and quoted
// text removed.
func normMsg(s string) string {
	if i := strings.Index(s, "map key "); i >= 0 {
		// "…for map key <arbitrary bytes>. <cause>": drop the key
		if j := strings.Index(s[i:], ". "); j >= 0 {
			s = s[:i] + "map key K" + s[i+j:]
		} else {
			s = s[:i] + "map key K"
		}
	}
	s = strings.Map(func(r rune) rune {
		if r < 32 || r > 126 {
			return '?'
		}
		return r
	}, s)
	s = quotedRe.ReplaceAllString(s, `"…"`)
	s = hexRe.ReplaceAllString(s, "X")
	s = digitsRe.ReplaceAllString(s, "N")
	if len(s) > 160 {
		s = s[:160]
	}
	return s
}

func panicClass(p any) string {
	s := fmt.Sprint(p)
	switch {
	case strings.Contains(s, "nil pointer dereference"):
		return "nil-deref"
	case strings.Contains(s, "slice bounds out of range"):
		return "slice-bounds"
	case strings.Contains(s, "index out of range"):
		return "index-range"
	case strings.Contains(s, "makeslice"):
		return "makeslice"
	case strings.Contains(s, "out of memory"):
		return "oom"
	}
	return normMsg(s)
}

// EventLog is the deterministic log of one execution: a running hash plus a
// count. Only plan-determined facts may be logged (no addresses, no map
// orders, no clocks).
type EventLog struct {
	h      [32]byte
	Events int
}

func (l *EventLog) Add(format string, args ...any) {
	s := fmt.Sprintf(format, args...)
	sum := sha256.Sum256(append(l.h[:], s...))
	l.h = sum
	l.Events++
}

func (l *EventLog) Hash() string { return hex.EncodeToString(l.h[:8]) }

// Counter is a string->int map with deterministic rendering.
type Counter map[string]int

func (c Counter) Inc(k string)         { c[k]++ }
func (c Counter) Addn(k string, n int) { c[k] += n }

func (c Counter) Merge(o Counter) {
	for k, v := range o {
		if strings.HasPrefix(k, "max-") {
			c[k] = max(c[k], v)
		} else {
			c[k] += v
		}
	}
}

func sortedKeys[V any](m map[string]V) []string {
	ks := make([]string, 0, len(m))
	for k := range m {
		ks = append(ks, k)
	}
	sort.Strings(ks)
	return ks
}

func errString(err error) string {
	if err == nil {
		return "<nil>"
	}
	return err.Error()
}
