package main

import (
	"bufio"
	"bytes"
	"context"
	"encoding/json"
	"fmt"
	"io"
	"os"
	"os/exec"
	"path/filepath"
	"runtime"
	"sort"
	"strconv"
	"strings"
	"sync"
	"syscall"
	"time"
)

func verifRoot() string {
	if d := os.Getenv("VERIF_ROOT"); d != "" {
		return d
	}
	return "/verif"
}

// ---------------------------------------------------------------------------
// Child process handling

type ring struct {
	mu    sync.Mutex
	buf   []byte
	marks int // journal lines seen ("@@…"): progress of the worker
}

func (r *ring) progress() int {
	r.mu.Lock()
	defer r.mu.Unlock()
	return r.marks
}

func (r *ring) Write(p []byte) (int, error) {
	r.mu.Lock()
	defer r.mu.Unlock()
	r.marks += bytes.Count(p, []byte("@@"))
	r.buf = append(r.buf, p...)
	if len(r.buf) > 1<<18 {
		r.buf = append([]byte{}, r.buf[len(r.buf)-(1<<17):]...)
	}
	return len(p), nil
}

func (r *ring) String() string {
	r.mu.Lock()
	defer r.mu.Unlock()
	return string(r.buf)
}

// since returns the text after the last "@@BEGIN idx" marker.
func (r *ring) since(idx int) string {
	s := r.String()
	m := fmt.Sprintf("@@BEGIN %d\n", idx)
	if i := strings.LastIndex(s, m); i >= 0 {
		return s[i+len(m):]
	}
	return s
}

type child struct {
	prop   Property
	cmd    *exec.Cmd
	in     io.WriteCloser
	lines  chan []byte
	stderr *ring
	dead   bool
	// history: the plans this process has executed so far, in order. The
	// library has process-global state (registries, caches, pools), so a
	// violation may depend on what the same process did before.
	history []*Plan
}

type childOpts struct {
	gomaxprocs int
	env        []string
}

func workerBinary(p Property) string {
	if p.Race() {
		if b := os.Getenv("VERIF_SIM_RACE"); b != "" {
			return b
		}
	}
	exe, err := os.Executable()
	if err != nil {
		panic(err)
	}
	return exe
}

func startChild(p Property, o childOpts) (*child, error) {
	cmd := exec.Command(workerBinary(p), "worker", p.ID())
	gmp := o.gomaxprocs
	if gmp == 0 {
		gmp = 1
	}
	cmd.Env = append(os.Environ(), fmt.Sprintf("GOMAXPROCS=%d", gmp), "GOTRACEBACK=all")
	cmd.Env = append(cmd.Env, o.env...)
	if p.Race() {
		dir := os.Getenv("VERIF_BUILD_DIR")
		if dir == "" {
			dir = filepath.Join(verifRoot(), ".build")
		}
		dir = filepath.Join(dir, "racelogs")
		os.MkdirAll(dir, 0o755)
		logp := filepath.Join(dir, "race")
		cmd.Env = append(cmd.Env, "GORACE=halt_on_error=0 log_path="+logp, "VERIF_RACE_LOG="+logp)
	}
	in, err := cmd.StdinPipe()
	if err != nil {
		return nil, err
	}
	out, err := cmd.StdoutPipe()
	if err != nil {
		return nil, err
	}
	c := &child{prop: p, cmd: cmd, in: in, stderr: &ring{}, lines: make(chan []byte, 4)}
	cmd.Stderr = c.stderr
	if err := cmd.Start(); err != nil {
		return nil, err
	}
	go func() {
		rd := bufio.NewReaderSize(out, 1<<20)
		for {
			line, err := rd.ReadBytes('\n')
			if len(line) > 0 {
				c.lines <- line
			}
			if err != nil {
				close(c.lines)
				return
			}
		}
	}()
	return c, nil
}

func (c *child) rmRaceLog() {
	for _, e := range c.cmd.Env {
		if strings.HasPrefix(e, "VERIF_RACE_LOG=") {
			os.Remove(fmt.Sprintf("%s.%d", strings.TrimPrefix(e, "VERIF_RACE_LOG="), c.cmd.Process.Pid))
		}
	}
}

func (c *child) kill() {
	if c == nil || c.dead {
		return
	}
	c.dead = true
	c.in.Close()
	c.cmd.Process.Kill()
	c.cmd.Wait()
	c.rmRaceLog()
}

func (c *child) close() {
	if c == nil || c.dead {
		return
	}
	c.dead = true
	c.in.Close()
	done := make(chan struct{})
	go func() { c.cmd.Wait(); close(done) }()
	select {
	case <-done:
	case <-time.After(5 * time.Second):
		c.cmd.Process.Kill()
		<-done
	}
	c.rmRaceLog()
}

// quitBusiestThread sends SIGQUIT to the thread of the process that has used
// the most CPU (the one running the spinning goroutine), so that the Go
// runtime's dump shows that goroutine's stack rather than "stack unavailable".
func quitBusiestThread(pid int) {
	best, bestCPU := 0, int64(-1)
	ents, _ := os.ReadDir(fmt.Sprintf("/proc/%d/task", pid))
	for _, e := range ents {
		tid, err := strconv.Atoi(e.Name())
		if err != nil {
			continue
		}
		b, err := os.ReadFile(fmt.Sprintf("/proc/%d/task/%d/stat", pid, tid))
		if err != nil {
			continue
		}
		st := string(b)
		i := strings.LastIndexByte(st, ')')
		f := strings.Fields(st[i+1:])
		if i < 0 || len(f) < 13 {
			continue
		}
		ut, _ := strconv.ParseInt(f[11], 10, 64)
		stime, _ := strconv.ParseInt(f[12], 10, 64)
		if ut+stime > bestCPU {
			best, bestCPU = tid, ut+stime
		}
	}
	if best == 0 || syscall.Tgkill(pid, best, syscall.SIGQUIT) != nil {
		syscall.Kill(pid, syscall.SIGQUIT)
	}
}

func procCPU(pid int) (time.Duration, bool) {
	b, err := os.ReadFile(fmt.Sprintf("/proc/%d/stat", pid))
	if err != nil {
		return 0, false
	}
	s := string(b)
	i := strings.LastIndexByte(s, ')')
	if i < 0 {
		return 0, false
	}
	f := strings.Fields(s[i+1:])
	if len(f) < 13 {
		return 0, false
	}
	ut, _ := strconv.ParseInt(f[11], 10, 64)
	st, _ := strconv.ParseInt(f[12], 10, 64)
	return time.Duration(ut+st) * 10 * time.Millisecond, true
}

// libFrameFromDump finds the innermost library function in the first
// goroutine stack of a crash / SIGQUIT dump.
func libFrameFromDump(dump string) string {
	// Split into goroutine blocks; prefer a goroutine blocked on a lock
	// (deadlock inside the library), then the running one, then any.
	type block struct {
		header string
		frame  string
	}
	var blocks []block
	cur := -1
	for _, l := range strings.Split(dump, "\n") {
		t := strings.TrimSpace(l)
		if strings.HasPrefix(t, "goroutine ") && strings.HasSuffix(t, ":") {
			blocks = append(blocks, block{header: t})
			cur = len(blocks) - 1
			continue
		}
		if cur >= 0 && blocks[cur].frame == "" && strings.HasPrefix(t, libPrefix) {
			if k := strings.LastIndexByte(t, '('); k > 0 {
				t = t[:k]
			}
			blocks[cur].frame = normFunc(t)
		}
	}
	for _, want := range []string{"sync.", "semacquire", "[running]", ""} {
		for _, b := range blocks {
			if b.frame != "" && strings.Contains(b.header, want) {
				return b.frame
			}
		}
	}
	return ""
}

// blockedLibFrame returns the innermost library function of a goroutine that
// is blocked on a sync primitive, if any.
func blockedLibFrame(dump string) string {
	cur, blocked := "", false
	for _, l := range strings.Split(dump, "\n") {
		t := strings.TrimSpace(l)
		if strings.HasPrefix(t, "goroutine ") && strings.HasSuffix(t, ":") {
			cur = t
			blocked = strings.Contains(cur, "sync.") || strings.Contains(cur, "semacquire")
			continue
		}
		if blocked && strings.HasPrefix(t, libPrefix) {
			if k := strings.LastIndexByte(t, '('); k > 0 {
				t = t[:k]
			}
			return normFunc(t)
		}
	}
	return ""
}

func fatalClass(dump string) string {
	for _, l := range strings.Split(dump, "\n") {
		if strings.HasPrefix(l, "fatal error: ") {
			msg := strings.TrimPrefix(l, "fatal error: ")
			if strings.HasPrefix(msg, "out of memory") || strings.Contains(msg, "cannot allocate") {
				msg = "out of memory"
			}
			return "fatal:" + normMsg(msg)
		}
		if strings.HasPrefix(l, "panic: ") {
			return "panic:" + panicClass(strings.TrimPrefix(l, "panic: "))
		}
		if strings.Contains(l, "SIGSEGV") || strings.Contains(l, "unexpected fault address") {
			return "fatal:segv"
		}
	}
	return ""
}

const (
	cpuBudget  = 20 * time.Second
	wallBudget = 15 * time.Minute
)

type cpuBudgeter interface{ CPUBudget() time.Duration }

func budgetFor(p Property) time.Duration {
	if b, ok := p.(cpuBudgeter); ok {
		return b.CPUBudget()
	}
	return cpuBudget
}

// exec runs one plan in the child. If the child dies or exceeds its CPU
// budget the returned result says so and the child is dead afterwards.
func (c *child) exec(plan *Plan) *Result {
	msg, err := json.Marshal(workerMsg{Plan: plan})
	if err != nil {
		return &Result{Idx: plan.Idx, Verdict: "infra", Detail: "marshal plan: " + err.Error()}
	}
	msg = append(msg, '\n')
	if len(c.history) < 400 {
		c.history = append(c.history, plan)
	}
	cpu0, _ := procCPU(c.cmd.Process.Pid)
	marks0 := c.stderr.progress()
	begun := false
	t0 := time.Now()
	lastCPU, lastMarks, lastMove := cpu0, marks0, time.Now()
	if _, err := c.in.Write(msg); err != nil {
		c.kill()
		return &Result{Idx: plan.Idx, Verdict: "infra", Detail: "worker not accepting plans: " + err.Error() + "\n" + tail(c.stderr.String(), 2000)}
	}
	tick := time.NewTicker(250 * time.Millisecond)
	var lastLook time.Time
	var lastLookCPU time.Duration
	stalls := 0
	defer func() {
		if stalls > 0 {
			fmt.Fprintf(os.Stderr, "note: %d sandbox stall(s) discounted by the watchdog during plan %d\n", stalls, plan.Idx)
		}
	}()
	defer tick.Stop()
	for {
		select {
		case line, ok := <-c.lines:
			if !ok {
				// child died with the plan in flight
				c.dead = true
				c.cmd.Wait()
				dump := c.stderr.since(plan.Idx)
				cls := fatalClass(dump)
				site := libFrameFromDump(dump)
				if cls == "" {
					return &Result{Idx: plan.Idx, Verdict: "infra", Detail: "worker died without a Go crash report: " + c.cmd.ProcessState.String() + "\n" + tail(dump, 3000)}
				}
				if site == "" && !strings.HasPrefix(cls, "fatal:") {
					return &Result{Idx: plan.Idx, Verdict: "infra", Detail: "worker panicked outside the library:\n" + tail(dump, 4000)}
				}
				if site == "" {
					site = "runtime"
				}
				return &Result{Idx: plan.Idx, Verdict: "violation", Class: "crash/" + cls, Site: classifyDeath(c.prop, plan, dump, site), Detail: "worker process died while executing the plan:\n" + head(dump, 3000), Evals: 1, Narrow: narrowByJournal(c.prop, plan, dump), NarrowedCase: journalCase(dump)}
			}
			var res Result
			if err := json.Unmarshal(line, &res); err != nil {
				c.kill()
				return &Result{Idx: plan.Idx, Verdict: "infra", Detail: "bad worker reply: " + err.Error()}
			}
			return &res
		case <-tick.C:
			cpu, ok := procCPU(c.cmd.Process.Pid)
			// The sandbox itself can stall (a VM pause or snapshot): the next look
			// then comes seconds late and the worker is charged CPU time no core
			// delivered. Whatever happened between two looks that are more than 5 s
			// apart (the ticker period is 250 ms), or that charged more CPU than 32
			// cores could have delivered, is not the worker's doing: discount it.
			if now := time.Now(); ok {
				gap := now.Sub(lastLook)
				if d := cpu - lastLookCPU; !lastLook.IsZero() && (gap > 5*time.Second || d > 32*gap+2*time.Second) {
					cpu0 += d
					lastCPU += d
					lastMove = lastMove.Add(gap)
					t0 = t0.Add(gap)
					stalls++
				}
				lastLook, lastLookCPU = now, cpu
			}
			// the CPU budget is per journalled step (plan, or case within a
			// plan), not per plan: a long enumeration that keeps making
			// progress is not a hang
			if m := c.stderr.progress(); m != marks0 {
				marks0, cpu0 = m, cpu
				begun = true
			}
			// Until the worker has journalled "@@BEGIN" for this plan it may
			// still be collecting the previous plan's garbage (workers run
			// with the collector off and collect between plans): that time is
			// not the plan's.
			budget := budgetFor(c.prop)
			if !begun {
				budget = 90 * time.Second
			}
			if ok && cpu-cpu0 > budget {
				quitBusiestThread(c.cmd.Process.Pid)
				time.Sleep(1500 * time.Millisecond)
				dump := c.stderr.since(plan.Idx)
				c.kill()
				site := libFrameFromDump(dump)
				if site == "" {
					// the stack of the spinning goroutine may be unavailable; the
					// property may still be able to classify the case from the plan
					site = classifyDeath(c.prop, plan, dump, "")
				}
				if site == "" {
					return &Result{Idx: plan.Idx, Verdict: "infra", Detail: fmt.Sprintf("CPU budget exceeded outside the library (cpu %v since the last journal line, %d journal lines):\n%s\n[…]\n%s", cpu-cpu0, marks0, head(dump, 5000), tail(dump, 1500))}
				}
				return &Result{Idx: plan.Idx, Verdict: "violation", Class: "hang", Site: classifyDeath(c.prop, plan, dump, site), Detail: fmt.Sprintf("no result after %v of CPU time\n%s", cpu-cpu0, head(dump, 3000)), Evals: 1, Narrow: narrowByJournal(c.prop, plan, dump), NarrowedCase: journalCase(dump)}
			}
			// Blocked, not spinning: no CPU and no journal progress for a minute
			// while a plan is in flight. If the dump shows a goroutine blocked on a
			// lock inside the library this is a deadlock in the code under test.
			if ok && begun {
				if cpu-lastCPU > 20*time.Millisecond || c.stderr.progress() != lastMarks {
					lastCPU, lastMarks, lastMove = cpu, c.stderr.progress(), time.Now()
				} else if time.Since(lastMove) > 60*time.Second {
					c.cmd.Process.Signal(syscall.SIGQUIT)
					time.Sleep(1500 * time.Millisecond)
					dump := c.stderr.since(plan.Idx)
					c.kill()
					if site := blockedLibFrame(dump); site != "" {
						return &Result{Idx: plan.Idx, Verdict: "violation", Class: "deadlock", Site: site, Detail: "the worker made no progress for 60 s without using CPU; a goroutine is blocked on a lock inside the library:\n" + head(dump, 3000), Evals: 1}
					}
					return &Result{Idx: plan.Idx, Verdict: "infra", Detail: "worker blocked (no CPU, no progress) outside the library:\n" + head(dump, 3000)}
				}
			}
			if time.Since(t0) > wallBudget {
				c.cmd.Process.Signal(syscall.SIGQUIT)
				time.Sleep(1500 * time.Millisecond)
				dump := c.stderr.since(plan.Idx)
				c.kill()
				return &Result{Idx: plan.Idx, Verdict: "infra", Detail: "wall-clock budget exceeded (blocked, not burning CPU):\n" + tail(dump, 3000)}
			}
		}
	}
}

// boostEnv: plans that are not exactly replayable get a longer exposure when
// they are re-executed to confirm or replay a violation.
func boostEnv(p Property, q *Plan) []string {
	if ra, ok := p.(replayAttempter); ok && ra.ReplayAttempts(q) > 1 {
		return []string{"VERIF_BURST_BOOST=20"}
	}
	return nil
}

// minimiseAttempter: how many attempts a candidate gets while minimising
// (default: ReplayAttempts).
type minimiseAttempter interface {
	MinimiseAttempts(p *Plan) int
}

// replayAttempter: how many attempts a plan may need to reproduce (1 = exact).
type replayAttempter interface {
	ReplayAttempts(p *Plan) int
}

type caseNarrower interface {
	NarrowCase(p *Plan, k int) *Plan
}

// deathClassifier lets a property refine the site of a violation that killed
// or hung the worker, from what the plan itself says about the case in flight.
// caseRemover returns the plan without case k (nil when nothing is left).
type caseRemover interface {
	WithoutCase(p *Plan, k int) *Plan
}

// journalCaseOf recovers the case index a narrowed plan was cut down to.
func journalCaseOf(r *Result) int { return r.NarrowedCase }

type deathClassifier interface {
	ClassifyDeath(p *Plan, k int) string
}

func journalCase(dump string) int {
	i := strings.LastIndex(dump, "@@CASE ")
	if i < 0 {
		return -1
	}
	var k int
	if _, err := fmt.Sscanf(dump[i:], "@@CASE %d", &k); err != nil {
		return -1
	}
	return k
}

// planOp runs one of a property's plan helpers (classify / narrow / without)
// in a child process. These helpers rebuild the plan's artifact, which for
// encoder-written files means running the library's encoder: the controller
// must not do that in its own process, where a fatal error in the library
// (checkptr, a corrupted heap) would take the whole check down with it.
func planOp(p Property, op string, plan *Plan, k int) (string, *Plan) {
	exe, err := os.Executable()
	if err != nil {
		return "", nil
	}
	in, err := json.Marshal(plan)
	if err != nil {
		return "", nil
	}
	ctx, cancel := context.WithTimeout(context.Background(), 120*time.Second)
	defer cancel()
	cmd := exec.CommandContext(ctx, exe, "planop", p.ID(), op, strconv.Itoa(k))
	cmd.Stdin = bytes.NewReader(in)
	out, err := cmd.Output()
	if err != nil {
		return "", nil
	}
	var r planOpReply
	if json.Unmarshal(out, &r) != nil {
		return "", nil
	}
	return r.Site, r.Plan
}

type planOpReply struct {
	Site string `json:"site,omitempty"`
	Plan *Plan  `json:"plan,omitempty"`
}

// planOpMain is the child side of planOp.
func planOpMain(propID, op string, k int) int {
	p, ok := properties[propID]
	if !ok {
		return 2
	}
	installRandSeam()
	var plan Plan
	if err := json.NewDecoder(os.Stdin).Decode(&plan); err != nil {
		return 2
	}
	var r planOpReply
	switch op {
	case "classify":
		if dc, ok := p.(deathClassifier); ok {
			r.Site = dc.ClassifyDeath(&plan, k)
		}
	case "narrow":
		if cn, ok := p.(caseNarrower); ok {
			r.Plan = cn.NarrowCase(&plan, k)
		}
	case "without":
		if cr, ok := p.(caseRemover); ok {
			r.Plan = cr.WithoutCase(&plan, k)
		}
	}
	if err := json.NewEncoder(os.Stdout).Encode(r); err != nil {
		return 2
	}
	return 0
}

func classifyDeath(p Property, plan *Plan, dump, site string) string {
	if _, ok := p.(deathClassifier); ok {
		if s, _ := planOp(p, "classify", plan, journalCase(dump)); s != "" {
			return s
		}
	}
	return site
}

// narrowByJournal uses the worker's "@@CASE k" journal to reduce a plan whose
// execution killed the worker to the case that was in flight.
func narrowByJournal(p Property, plan *Plan, dump string) *Plan {
	cn, ok := p.(caseNarrower)
	if !ok {
		return nil
	}
	i := strings.LastIndex(dump, "@@CASE ")
	if i < 0 {
		return nil
	}
	var k int
	if _, err := fmt.Sscanf(dump[i:], "@@CASE %d", &k); err != nil {
		return nil
	}
	_ = cn
	_, q := planOp(p, "narrow", plan, k)
	return q
}

func tail(s string, n int) string {
	if len(s) > n {
		return "…" + s[len(s)-n:]
	}
	return s
}

func head(s string, n int) string {
	if len(s) > n {
		return s[:n] + "…"
	}
	return s
}

// ---------------------------------------------------------------------------
// Known findings

type Finding struct {
	Property string `json:"property"`
	Status   string `json:"status"` // known | fixed
	Key      string `json:"key"`    // class|site of the violation
	Commit   string `json:"commit,omitempty"`
	What     string `json:"what"`
}

type findingsFile struct {
	Findings []Finding `json:"findings"`
}

func loadFindings() []Finding {
	b, err := os.ReadFile(filepath.Join(verifRoot(), "known_findings.json"))
	if err != nil {
		return nil
	}
	var f findingsFile
	if err := json.Unmarshal(b, &f); err != nil {
		fmt.Fprintf(os.Stderr, "known_findings.json: %v\n", err)
		os.Exit(2)
	}
	return f.Findings
}

func matchKnown(fs []Finding, prop, key string) *Finding {
	for i := range fs {
		if fs[i].Status == "known" && fs[i].Property == prop && fs[i].Key == key {
			return &fs[i]
		}
	}
	return nil
}

// ---------------------------------------------------------------------------
// Controller

type violationRec struct {
	plan    *Plan
	res     *Result
	replay  string
	known   *Finding
	history []*Plan // plans the same worker process executed before this one
}

type replayFile struct {
	Property  string `json:"property"`
	Class     string `json:"class"`
	Site      string `json:"site"`
	Detail    string `json:"detail"`
	Seed      uint64 `json:"seed"`
	Minimised bool   `json:"minimised"`
	Steps     int    `json:"minimise_steps"`
	Plan      *Plan  `json:"plan"`
	Original  *Plan  `json:"original_plan,omitempty"`
	// History: plans to execute, in order, in the same process before Plan (the
	// violation depends on process-global state they leave behind).
	History []*Plan `json:"history,omitempty"`
}

func ctlMain(propID, tier string) int {
	p, ok := properties[propID]
	if !ok {
		fmt.Fprintf(os.Stderr, "unknown property %s\n", propID)
		return 2
	}
	seed := envSeed(tier)
	n := envInt("VERIF_COUNT", p.Count(tier))
	nw := envInt("VERIF_WORKERS", min(16, runtime.NumCPU()))
	if nw > n {
		nw = n
	}
	wallCap := time.Duration(envInt("VERIF_WALL_CAP_S", map[string]int{"quick": 240, "thorough": 3000}[tier])) * time.Second
	fmt.Printf("property=%s tier=%s VERIF_SEED=%d plans=%d workers=%d\n", propID, tier, seed, n, nw)
	t0 := time.Now()

	var mu sync.Mutex
	agg := struct {
		plans, evals, events int
		sigs                 map[string]bool
		faults, probes       Counter
		samples              []any
		viol                 map[string]*violationRec
		violCount            int
		knownCount           int
		infra                []string
		retried              []string
		capped               bool
		knownHits            Counter
	}{sigs: map[string]bool{}, faults: Counter{}, probes: Counter{}, viol: map[string]*violationRec{}, knownHits: Counter{}}
	known := loadFindings()

	idxCh := make(chan int)
	go func() {
		defer close(idxCh)
		for i := 0; i < n; i++ {
			if time.Since(t0) > wallCap {
				mu.Lock()
				agg.capped = true
				mu.Unlock()
				return
			}
			// a tree on which a property fails wholesale: two dozen failing
			// plans say what two thousand would (each hang costs a CPU budget)
			mu.Lock()
			stopAfter := 24
			if p.Race() {
				stopAfter = 8 // reproducing a failure under the race detector costs far more
			}
			enough := agg.violCount-agg.knownCount >= stopAfter
			mu.Unlock()
			if enough {
				return
			}
			idxCh <- i
		}
	}()
	var wg sync.WaitGroup
	for w := 0; w < nw; w++ {
		wg.Add(1)
		go func(w int) {
			defer wg.Done()
			var c *child
			defer func() { c.close() }()
			for idx := range idxCh {
				if c == nil || c.dead {
					var err error
					c, err = startChild(p, childOpts{})
					if err != nil {
						mu.Lock()
						agg.infra = append(agg.infra, "start worker: "+err.Error())
						mu.Unlock()
						return
					}
				}
				plan := p.Generate(seed, idx, tier)
				res := c.exec(plan)
				// Trouble that comes from the environment (a worker killed from
				// outside, starved, not starting) says nothing about the code under
				// test. The plan is run once more in a fresh worker; only trouble
				// that repeats is reported (exit 2). The retry is counted in the
				// evidence. A worker that panics or spins in the HARNESS is not
				// retried: the library writes through unsafe pointers, and a harness
				// crash after a plan that passed is how heap corruption shows (D14).
				if res.Verdict == "infra" && transientInfra(res.Detail) {
					first := res.Detail
					c.close()
					var err error
					if c, err = startChild(p, childOpts{}); err == nil {
						res = c.exec(plan)
						mu.Lock()
						agg.probes.Inc("plans-rerun-after-infrastructure-trouble")
						if len(agg.retried) < 5 {
							agg.retried = append(agg.retried, fmt.Sprintf("plan %d: %s", idx, head(first, 300)))
						}
						mu.Unlock()
					}
				}
				// A case that killed the worker through a listed known finding
				// must not cost the rest of the plan its execution: the plan
				// is re-run without that case (bounded).
				if cr, ok := p.(caseRemover); ok {
					for retry := 0; retry < 6 && res.Verdict == "violation" && res.Narrow != nil && matchKnown(known, propID, res.key()) != nil; retry++ {
						k := journalCaseOf(res)
						_ = cr
						_, rest := planOp(p, "without", plan, k)
						if rest == nil {
							break
						}
						mu.Lock()
						agg.knownHits[res.key()]++
						agg.evals += res.Evals
						mu.Unlock()
						if c == nil || c.dead {
							var err error
							if c, err = startChild(p, childOpts{}); err != nil {
								break
							}
						}
						plan = rest
						res = c.exec(plan)
					}
				}
				mu.Lock()
				agg.plans++
				agg.evals += res.Evals
				agg.events += res.Events
				for _, s := range res.Sigs {
					agg.sigs[s] = true
				}
				agg.faults.Merge(res.Faults)
				agg.probes.Merge(res.Probes)
				if res.Sample != nil && len(agg.samples) < 6 && (idx < 3 || idx%max(1, n/3) == 0) {
					agg.samples = append(agg.samples, map[string]any{"plan": plan, "observed": res.Sample})
				}
				switch res.Verdict {
				case "violation":
					agg.violCount++
					if matchKnown(known, propID, res.key()) != nil {
						agg.knownCount++
					}
					k := res.key()
					if _, seen := agg.viol[k]; !seen && len(agg.viol) < 12 {
						var hist []*Plan
						if n := len(c.history); n > 1 {
							hist = append(hist, c.history[:n-1]...)
						}
						agg.viol[k] = &violationRec{plan: plan, res: res, history: hist}
					}
				case "infra":
					if len(agg.infra) < 10 {
						agg.infra = append(agg.infra, fmt.Sprintf("plan %d: %s", idx, res.Detail))
					}
				}
				mu.Unlock()
			}
		}(w)
	}
	wg.Wait()
	explored := time.Since(t0)

	// Minimise and report violations.
	exit := 0
	for _, k := range sortedKeys(agg.knownHits) {
		if _, ok := agg.viol[k]; !ok {
			agg.viol[k] = &violationRec{res: &Result{Class: strings.SplitN(k, "|", 2)[0], Site: strings.SplitN(k+"|", "|", 3)[1]}}
		}
	}
	keys := sortedKeys(agg.viol)
	reported := 0
	for _, k := range keys {
		v := agg.viol[k]
		if f := matchKnown(known, propID, k); f != nil {
			v.known = f
			fmt.Printf("KNOWN-FINDING: property=%s key=%q %s\n", propID, k, f.What)
			continue
		}
		start := v.plan
		if v.res.Narrow != nil {
			start = v.res.Narrow
		}
		minPlan, minRes, steps := minimise(p, start, v.res)
		if steps < 0 && start != v.plan {
			// the narrowed plan does not reproduce on its own: try the plan as executed
			minPlan, minRes, steps = minimise(p, v.plan, v.res)
		}
		var hist []*Plan
		if steps < 0 && len(v.history) > 0 {
			// Not reproducible on its own: it may depend on what the same
			// process executed before (process-global library state).
			if h, r := reproduceWithHistory(p, v.history, v.plan, v.res); h != nil {
				hist, minPlan, minRes, steps = h, v.plan, r, 0
			}
		}
		if steps < 0 {
			// A violation that a fresh child cannot reproduce from the plan is
			// not evidence about the code (plans are pure functions of their
			// content): infrastructure, never a VIOLATION line.
			agg.infra = append(agg.infra, fmt.Sprintf("plan %d: %s|%s was reported once but does not reproduce from its plan in a fresh worker:\n%s", v.plan.Idx, v.res.Class, v.res.Site, head(v.res.Detail, 1500)))
			continue
		}
		// the minimised violation may turn out to be a listed finding
		if f := matchKnown(known, propID, minRes.key()); f != nil {
			v.known = f
			fmt.Printf("KNOWN-FINDING: property=%s key=%q %s\n", propID, minRes.key(), f.What)
			continue
		}
		rf := replayFile{Property: propID, Class: minRes.Class, Site: minRes.Site, Detail: minRes.Detail, Seed: seed, Minimised: steps > 0, Steps: max(steps, 0), Plan: minPlan, Original: v.plan, History: hist}
		dir := filepath.Join(verifRoot(), "replays")
		if d := os.Getenv("VERIF_REPLAY_DIR"); d != "" {
			dir = d
		}
		os.MkdirAll(dir, 0o755)
		path := filepath.Join(dir, fmt.Sprintf("%s-%d-%d.json", propID, seed, v.plan.Idx))
		b, _ := json.MarshalIndent(rf, "", " ")
		if err := os.WriteFile(path, b, 0o644); err != nil {
			fmt.Fprintf(os.Stderr, "cannot write replay file: %v\n", err)
			return 2
		}
		v.replay = path
		fmt.Printf("violation class=%q site=%q\n  %s\n", minRes.Class, minRes.Site, strings.ReplaceAll(head(minRes.Detail, 1200), "\n", "\n  "))
		fmt.Printf("VIOLATION property=%s replay=%s\n", propID, path)
		reported++
		exit = 1
	}
	if len(agg.infra) > 0 {
		for _, s := range agg.infra {
			fmt.Fprintf(os.Stderr, "INFRA: %s\n", head(s, 9000))
		}
		if exit == 0 {
			exit = 2
		}
	}

	wall := time.Since(t0)
	writeEvidence(p, tier, seed, n, nw, wall, explored, &evidenceAgg{
		plans: agg.plans, evals: agg.evals, events: agg.events, sigs: agg.sigs, faults: agg.faults, probes: agg.probes,
		samples: agg.samples, violations: reported, violCount: agg.violCount, capped: agg.capped, viol: agg.viol,
	})
	fmt.Printf("property=%s tier=%s plans=%d executions=%d distinct_signatures=%d violations=%d known_findings=%d wall=%.1fs\n",
		propID, tier, agg.plans, agg.evals, len(agg.sigs), reported, countKnown(agg.viol), wall.Seconds())
	if agg.capped {
		fmt.Printf("note: wall-clock cap reached after %d of %d plans\n", agg.plans, n)
	}
	for _, r := range agg.retried {
		fmt.Printf("note: re-run after infrastructure trouble: %s\n", strings.ReplaceAll(r, "\n", " | "))
	}
	return exit
}

// transientInfra: infrastructure verdicts caused by the environment rather
// than by anything the worker itself did.
func transientInfra(detail string) bool {
	for _, p := range []string{"worker died without a Go crash report", "wall-clock budget exceeded", "worker not accepting plans", "worker blocked (no CPU, no progress) outside the library"} {
		if strings.HasPrefix(detail, p) {
			return true
		}
	}
	return false
}

func countKnown(m map[string]*violationRec) int {
	c := 0
	for _, v := range m {
		if v.known != nil {
			c++
		}
	}
	return c
}

// minimise shrinks a failing plan while the same violation class and site
// persist. Every candidate runs in a child process.
func minimise(p Property, plan *Plan, res *Result) (*Plan, *Result, int) {
	// Every candidate runs in a FRESH child: the library has process-global
	// state, and a candidate must not "reproduce" thanks to what an earlier
	// candidate left behind in the same process.
	once := func(q *Plan) *Result {
		c, err := startChild(p, childOpts{env: boostEnv(p, q)})
		if err != nil {
			return &Result{Verdict: "infra"}
		}
		defer func() { c.close() }()
		return c.exec(q)
	}
	// A plan the property declares not exactly replayable (C12's parallel
	// burst) is given several attempts to show the violation again.
	run := func(q *Plan) *Result {
		n := 1
		if ma, ok := p.(minimiseAttempter); ok {
			n = max(1, ma.MinimiseAttempts(q))
		} else if ra, ok := p.(replayAttempter); ok {
			n = max(1, ra.ReplayAttempts(q))
		}
		var r *Result
		for i := 0; i < n; i++ {
			if r = once(q); r.Verdict == "violation" {
				break
			}
		}
		return r
	}
	// Under the race detector a verdict has a residue of chance even for a
	// fixed schedule (DESIGN §9: fmt, reflect and the allocator synchronise
	// through per-P pools inside the runtime, and whether such an edge happens
	// to order the two racing accesses depends on which P ran which goroutine).
	// A smaller plan is therefore adopted only if it shows the violation three
	// times out of three, so that minimisation cannot trade an always-failing
	// plan for one that fails now and then.
	stable := 1
	if p.Race() {
		stable = 3
	}
	runStable := func(q *Plan) *Result {
		var r *Result
		for i := 0; i < stable; i++ {
			if r = run(q); r.Verdict != "violation" {
				return r
			}
		}
		return r
	}
	// First make sure the starting plan reproduces (it may be the narrowed one).
	cur, curRes := plan, res
	if r := run(plan); r.Verdict == "violation" && r.Class == res.Class {
		curRes = r
	} else {
		return plan, res, -1 // did not reproduce
	}
	steps := 0
	deadline := time.Now().Add(time.Duration(envInt("VERIF_MINIMISE_S", 60)) * time.Second)
	for attempts := 0; attempts < 400 && time.Now().Before(deadline); {
		progressed := false
		for _, cand := range p.Shrink(cur) {
			attempts++
			r := runStable(cand)
			if r.Verdict == "violation" && r.Class == curRes.Class && r.Site == curRes.Site {
				cur, curRes = cand, r
				// the worker's narrowed plan (single cut / bit / write index / case)
				// is adopted only if it reproduces on its own: the violation may
				// need the cases that precede it within the plan
				if r.Narrow != nil {
					if r2 := runStable(r.Narrow); r2.Verdict == "violation" && r2.Class == curRes.Class && r2.Site == curRes.Site {
						cur, curRes = r.Narrow, r2
					}
				}
				steps++
				progressed = true
				break
			}
			if time.Now().After(deadline) {
				break
			}
		}
		if !progressed {
			break
		}
	}
	return cur, curRes, steps
}

// reproduceWithHistory re-executes, in a fresh child, a suffix of the plans the
// failing worker had executed before the failing plan, then the plan itself.
// It returns the shortest suffix (by doubling, then single drops) that still
// reproduces the violation class, or nil.
func reproduceWithHistory(p Property, history []*Plan, plan *Plan, res *Result) ([]*Plan, *Result) {
	try := func(h []*Plan) *Result {
		c, err := startChild(p, childOpts{})
		if err != nil {
			return nil
		}
		defer func() { c.close() }()
		for _, q := range h {
			if r := c.exec(q); c.dead || r.Verdict == "infra" {
				return nil
			}
		}
		r := c.exec(plan)
		if r.Verdict == "violation" && r.Class == res.Class {
			return r
		}
		return nil
	}
	var best []*Plan
	var bestRes *Result
	for n := 1; ; n *= 2 {
		if n > len(history) {
			n = len(history)
		}
		h := history[len(history)-n:]
		if r := try(h); r != nil {
			best, bestRes = h, r
			break
		}
		if n == len(history) {
			return nil, nil
		}
	}
	// drop single predecessors while it still reproduces
	for i := 0; i < len(best) && len(best) > 1 && len(best) <= 64; {
		cand := append(append([]*Plan{}, best[:i]...), best[i+1:]...)
		if r := try(cand); r != nil {
			best, bestRes = cand, r
		} else {
			i++
		}
	}
	return best, bestRes
}

// ---------------------------------------------------------------------------
// Replay

func replayMain(path string) int {
	b, err := os.ReadFile(path)
	if err != nil {
		fmt.Fprintln(os.Stderr, err)
		return 2
	}
	var rf replayFile
	if err := json.Unmarshal(b, &rf); err != nil || rf.Plan == nil {
		fmt.Fprintf(os.Stderr, "bad replay file: %v\n", err)
		return 2
	}
	p, ok := properties[rf.Property]
	if !ok {
		fmt.Fprintf(os.Stderr, "unknown property %s\n", rf.Property)
		return 2
	}
	tries := 1
	switch p.ID() {
	case "C11":
		tries = 20 // DESIGN §9: allocator reuse and map iteration order have no seam
	case "C06", "C07", "C08":
		// these checks read through the real sync.Pool of banks (only C10 and
		// C12 own the pool): a violation that is really a bank-recycling
		// defect may need more than one attempt here; C10 replays exactly.
		tries = 5
	}
	if ra, ok := p.(replayAttempter); ok {
		tries = max(tries, ra.ReplayAttempts(rf.Plan))
	}
	for i := 0; i < tries; i++ {
		c, err := startChild(p, childOpts{env: boostEnv(p, rf.Plan)})
		if err != nil {
			fmt.Fprintln(os.Stderr, err)
			return 2
		}
		for hi, h := range rf.History {
			if r := c.exec(h); c.dead {
				fmt.Printf("replay: history plan %d killed the worker: %s\n", hi, r.Detail)
				break
			}
		}
		if c.dead {
			return 2
		}
		res := c.exec(rf.Plan)
		c.close()
		fmt.Printf("replay attempt %d: verdict=%s class=%q site=%q log=%s\n  %s\n", i+1, res.Verdict, res.Class, res.Site, res.LogHash, strings.ReplaceAll(head(res.Detail, 2000), "\n", "\n  "))
		if res.Verdict == "violation" {
			if res.Class == rf.Class && res.Site == rf.Site {
				fmt.Printf("REPRODUCED property=%s class=%q\n", rf.Property, res.Class)
			} else {
				fmt.Printf("REPRODUCED-DIFFERENTLY property=%s recorded=%q now=%q\n", rf.Property, rf.Class+"|"+rf.Site, res.key())
			}
			return 1
		}
		if res.Verdict == "infra" {
			return 2
		}
	}
	fmt.Printf("NOT-REPRODUCED property=%s\n", rf.Property)
	return 0
}

// ---------------------------------------------------------------------------
// Evidence

type evidenceAgg struct {
	plans, evals, events int
	sigs                 map[string]bool
	faults, probes       Counter
	samples              []any
	violations           int
	violCount            int
	capped               bool
	viol                 map[string]*violationRec
}

func writeEvidence(p Property, tier string, seed uint64, n, nw int, wall, explored time.Duration, a *evidenceAgg) {
	sigs := sortedKeys(a.sigs)
	sigSample := sigs
	if len(sigSample) > 40 {
		step := len(sigs) / 40
		sigSample = nil
		for i := 0; i < len(sigs); i += step {
			sigSample = append(sigSample, sigs[i])
		}
	}
	var knownMatched []string
	for _, k := range sortedKeys(a.viol) {
		if a.viol[k].known != nil {
			knownMatched = append(knownMatched, k)
		}
	}
	zeroProbes := []string{}
	for _, k := range sortedKeys(a.probes) {
		if a.probes[k] == 0 {
			zeroProbes = append(zeroProbes, k)
		}
	}
	hours := explored.Hours()
	if hours <= 0 {
		hours = 1e-9
	}
	if len(a.samples) == 0 {
		a.samples = []any{"no sample recorded"}
	}
	ev := map[string]any{
		"property_id": p.ID(),
		"tier":        tier,
		"seed":        int64(seed & 0x7fffffffffffffff),
		"level":       p.Level(),
		"coverage": map[string]any{
			"evaluations":            a.evals,
			"distinct_nontrivial":    len(a.sigs),
			"rule":                   p.Rule(),
			"samples":                a.samples,
			"exhaustive":             false,
			"plans":                  a.plans,
			"plans_requested":        n,
			"wall_cap_reached":       a.capped,
			"sim_events":             a.events,
			"runs_per_hour":          int(float64(a.evals) / hours),
			"plans_per_hour":         int(float64(a.plans) / hours),
			"seeds":                  fmt.Sprintf("VERIF_SEED=%d, plan index 0..%d; plan = G(property, seed, index)", seed, a.plans-1),
			"simulated_time":         "n/a — no clock or timer anywhere in the code under test; progress is counted in simulator events (sim_events)",
			"faults_fired":           a.faults,
			"probes":                 a.probes,
			"probes_at_zero":         zeroProbes,
			"signature_examples":     sigSample,
			"known_findings_matched": knownMatched,
			"violation_results":      a.violCount,
			"workers":                nw,
			"real_components":        realComponents,
			"stub_components":        stubComponents,
			"toolchain":              runtime.Version(),
		},
		"assumptions": p.Assumptions(),
		"wall_s":      wall.Seconds(),
		"violations":  a.violations,
	}
	dir := filepath.Join(verifRoot(), "evidence")
	if d := os.Getenv("VERIF_EVIDENCE_DIR"); d != "" {
		dir = d
	}
	os.MkdirAll(dir, 0o755)
	var buf bytes.Buffer
	enc := json.NewEncoder(&buf)
	enc.SetIndent("", " ")
	if err := enc.Encode(ev); err != nil {
		fmt.Fprintf(os.Stderr, "evidence: %v\n", err)
		return
	}
	os.WriteFile(filepath.Join(dir, p.ID()+".json"), buf.Bytes(), 0o644)
}

var realComponents = []string{
	"github.com/philpearl/avro, avro/time (current working tree, -tags verif)",
	"Go runtime, allocator, garbage collector, maps (GC trigger owned by the simulator where the plan says so)",
	"compress/flate, github.com/golang/snappy, go-json-experiment/json",
}

var stubComponents = []string{
	"disk/file: SimDisk io.Writer and avro.Reader (plan-chosen chunking, faults)",
	"crypto/rand.Reader: seeded byte stream (pins the sync marker)",
	"oracle side only: independent reference Avro container parser / writer / datum codec (sim/ref, imports nothing from the library)",
}

// ---------------------------------------------------------------------------
// Determinism self-test

func selftestMain(args []string) int {
	ids := sortedKeys(properties)
	if len(args) > 0 {
		ids = args
	}
	perProp := envInt("VERIF_SELFTEST_PLANS", 200)
	bad := 0
	for _, id := range ids {
		p := properties[id]
		if p == nil {
			fmt.Fprintf(os.Stderr, "unknown property %s\n", id)
			return 2
		}
		seed := envSeed("quick") + 7777
		type obs struct{ hash, verdict, class string }
		nproc := 16
		per := (perProp + nproc - 1) / nproc
		first := make([]obs, perProp)
		second := make([]obs, perProp)
		var wg sync.WaitGroup
		runPass := func(dst []obs, gmps []int) {
			for w := 0; w < nproc; w++ {
				wg.Add(1)
				go func(w int) {
					defer wg.Done()
					c, err := startChild(p, childOpts{gomaxprocs: gmps[w%len(gmps)]})
					if err != nil {
						return
					}
					defer func() { c.close() }()
					for i := w * per; i < (w+1)*per && i < perProp; i++ {
						if c.dead {
							c, _ = startChild(p, childOpts{gomaxprocs: gmps[w%len(gmps)]})
						}
						r := c.exec(p.Generate(seed, i, "quick"))
						dst[i] = obs{r.LogHash, r.Verdict, r.Class}
					}
				}(w)
			}
			wg.Wait()
		}
		runPass(first, []int{1, 4, 16})
		runPass(second, []int{16, 1, 4, 1})
		diff := 0
		for i := range first {
			if first[i] != second[i] {
				diff++
				if diff <= 5 {
					fmt.Printf("selftest %s: plan %d differs: %+v vs %+v\n", id, i, first[i], second[i])
				}
			}
		}
		fmt.Printf("selftest %s: %d plans x 2 executions in %d processes (GOMAXPROCS 1/4/16): %d differences\n", id, perProp, 2*nproc, diff)
		bad += diff
	}
	if bad > 0 {
		return 2
	}
	return 0
}

func sortStrings(s []string) []string { sort.Strings(s); return s }
