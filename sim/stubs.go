package main

type C06Plan struct{}
