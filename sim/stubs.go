package main

type C06Plan struct{}
type C12Plan struct{}
