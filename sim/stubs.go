package main

type C06Plan struct{}
type C11Plan struct{}
type C12Plan struct{}
