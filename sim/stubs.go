package main

type C06Plan struct{}
type C07Plan struct{}
type C09Plan struct{}
type C10Plan struct{}
type C11Plan struct{}
type C12Plan struct{}
type C16Plan struct{}
