package main

import (
	"errors"
	"fmt"
	"io"
	"reflect"

	"verif/sim/ref"
)

// C07 — the container reader delivers exactly the declared records and
// refuses damaged containers. One fault per run on top of an always-run
// fault-free baseline of the same plan; fault sites are enumerated from the
// independent container model.

type C07Site struct {
	Off int `json:"off"`           // byte offset in the file (bit faults)
	Bit int `json:"bit"`           // bit in that byte
	Rec int `json:"rec,omitempty"` // callback family: failing record index
}

type C07Plan struct {
	File      FileSpec  `json:"file"`
	Chunks    ChunkSpec `json:"chunks"`
	Family    string    `json:"family"` // baseline sync crc payload magic no-schema unknown-codec no-codec callback
	Block     int       `json:"block"`  // payload family: block index (mod number of blocks)
	AllBits   bool      `json:"all_bits"`
	BitSample []uint32  `json:"bit_sample,omitempty"`
	CodecName string    `json:"codec_name,omitempty"`
	Sites     []C07Site `json:"sites,omitempty"` // explicit sites (replay); nil = enumerate
	// CbErr: which error value the failing callback returns (callback family):
	// sentinel | eof | wrapped-eof | unexpected-eof | typed
	CbErr string `json:"cb_err,omitempty"`
}

type c07TypedErr struct{ code int }

func (e *c07TypedErr) Error() string { return fmt.Sprintf("typed callback error %d", e.code) }

func c07CallbackErr(kind string) error {
	switch kind {
	case "eof":
		return io.EOF
	case "wrapped-eof":
		return fmt.Errorf("sink closed: %w", io.EOF)
	case "unexpected-eof":
		return io.ErrUnexpectedEOF
	case "typed":
		return &c07TypedErr{code: 7}
	}
	return errCallback
}

var c07Families = []string{"sync", "sync", "crc", "payload", "payload", "payload", "magic", "no-schema", "unknown-codec", "no-codec", "callback", "callback", "baseline"}

var errCallback = errors.New("c07: callback sentinel")

type c07Prop struct{}

func init() { register(c07Prop{}) }

func (c07Prop) ID() string    { return "C07" }
func (c07Prop) Level() string { return "fault_enumeration" }
func (c07Prop) Race() bool    { return false }

func (c07Prop) Count(tier string) int {
	if tier == "thorough" {
		return 40000
	}
	return 3000
}

func (c07Prop) Rule() string {
	return "plan = valid container file (real Encoder or reference writer; curated type; codec; block partition) + one fault family. Every plan first runs the fault-free clause (exactly the declared records, in order, equal to the values written, nil error). " +
		"Then the family's sites are enumerated from the container model: every bit of every sync marker incl. the header's (quick: 16 sampled bits per marker), every bit of every snappy checksum, every bit of one block's compressed payload (quick: 64 sampled bits; verdict 'must be refused' only when the independent decompressor rejects the damaged payload), every bit of the magic, header without schema, unknown codec names, header without codec entry, callback failure at every record index. One execution = one ReadFile of one damaged file. " +
		"Non-trivial = a faulted execution. distinct_nontrivial counts distinct (family, codec, writer, block position class, bit-in-byte or sub-site, decompressor verdict) signatures."
}

func (c07Prop) Assumptions() []string {
	return []string{
		"'the decompressor rejects' is decided by calling compress/flate and snappy.Decode+CRC32 directly on the damaged payload; when flate accepts an altered stream (deflate has no checksum) the property demands nothing and nothing is demanded",
		"for sync/checksum/payload damage the damaged block's own records may or may not be delivered before the error (not stated); records of earlier blocks must be delivered exactly and nothing after the damaged block",
		"absolute equality to the written values is demanded only in the fault-free clause and only for the curated types",
		"reference container parser locates markers, checksums and payloads correctly (intact file only)",
	}
}

func (c07Prop) Generate(seed uint64, idx int, tier string) *Plan {
	r := NewRng(seed, uint64(idx)<<8|0x07)
	fs := genFileSpec(r, typeNames(nil), true, 20)
	if fs.VClass == 3 {
		fs.VClass = 2
	}
	pl := &C07Plan{File: fs, Chunks: genChunks(r), Family: r.Pick(c07Families), AllBits: tier == "thorough"}
	// most files should have >= 2 blocks so that "blocks before the damage" exists
	if fs.Writer == "enc" && r.P(2, 3) {
		pl.File.BlockSize = r.PickInt([]int{0, 1, 7, 40})
		if pl.File.N < 3 {
			pl.File.N = r.Range(3, 12)
		}
	}
	if r.P(1, 14) {
		// blocks far larger than the reader's internal chunk size
		pl.File = genBigFileSpec(r)
		pl.Family = r.Pick([]string{"baseline", "baseline", "callback", "sync", "crc"})
		pl.AllBits = false
	}
	switch pl.Family {
	case "crc":
		pl.File.Codec = "snappy"
	case "payload":
		pl.File.Codec = r.Pick([]string{"deflate", "snappy"})
		if pl.File.N == 0 {
			pl.File.N = r.Range(1, 8)
		}
	case "unknown-codec":
		names := []string{"bzip2", "xz", "zstandard", "Deflate", "NULL", "snappy ", "", "deflate\x00", "nul", "snapp"}
		if r.P(1, 3) {
			pl.CodecName = genString(r, 9) + "?"
		} else {
			pl.CodecName = r.Pick(names)
		}
	case "no-codec":
		pl.File.Codec = "null"
	}
	if pl.File.Codec == "none" && (pl.Family == "crc" || pl.Family == "payload") {
		pl.File.Codec = "snappy"
	}
	if pl.Family == "callback" {
		pl.CbErr = r.Pick([]string{"sentinel", "sentinel", "eof", "wrapped-eof", "unexpected-eof", "typed"})
	}
	pl.Block = r.Intn(64)
	for i := 0; i < 64; i++ {
		pl.BitSample = append(pl.BitSample, r.Uint32())
	}
	return &Plan{Prop: "C07", Seed: seed, Idx: idx, Tier: tier, C07: pl}
}

// expectedEqual checks a delivered record against the value written.
func expectedEqual(bf *BuiltFile, i int, got reflect.Value) (bool, string) {
	if got.Type() != bf.Desc.Type {
		if bf.Spec.Writer != "ref" {
			return projectedEqual(bf.Values[i], got)
		}
		// reference-writer file, projected target: compare, per field the
		// target has, the datum the field was written as with the datum the
		// decoded field would be written as
		full := bf.Values[i]
		ft := full.Type()
		for k := 0; k < got.NumField(); k++ {
			name := got.Type().Field(k).Name
			sf, ok := ft.FieldByName(name)
			if !ok {
				if !got.Field(k).IsZero() {
					return false, "." + name + ": field absent from the file is not zero"
				}
				continue
			}
			jn, _ := jsonName(sf)
			var fs *ref.Schema
			for _, f := range bf.Schema.Fields {
				if f.Name == jn {
					fs = f.Type
				}
			}
			if fs == nil {
				continue
			}
			want := ToDatum(fs, full.FieldByName(name), hasOmitEmpty(sf), nil)
			have := ToDatum(fs, got.Field(k), hasOmitEmpty(sf), nil)
			if !ref.Equal(want, have) {
				return false, "." + name + ": datum trees differ"
			}
		}
		return true, ""
	}
	if bf.Spec.Writer == "ref" {
		want := ToDatum(bf.Schema, bf.Values[i], false, nil)
		have := ToDatum(bf.Schema, got, false, nil)
		if !ref.Equal(want, have) {
			return false, "datum trees differ"
		}
		return true, ""
	}
	return EqualNorm(bf.Values[i], got)
}

func (c07Prop) Execute(p *Plan, run *Run) any {
	pl := p.C07
	bf, err := BuildFile(pl.File)
	if err != nil {
		run.Probes.Inc("skipped:workload-unbuildable")
		run.Log.Add("skip build")
		return map[string]any{"skipped": err.Error()}
	}
	c, err := ref.ParseContainer(bf.Bytes)
	if err != nil {
		run.Probes.Inc("skipped:writer-output-unparseable")
		run.Log.Add("skip parse")
		return map[string]any{"skipped": err.Error()}
	}
	data := bf.Bytes
	target := targetFor(bf.Desc.Type, pl.Chunks.Project)
	run.Probes.Inc("type:" + pl.File.Type + "/" + pl.File.Writer)
	codec := c.Codec()

	// ---- fault-free clause
	full := readAllOut(target, pl.Chunks.OutPtr, openReader(data, pl.Chunks), -1, nil)
	run.Evals++
	var total int64
	cum := make([]int64, len(c.Blocks)+1) // records before block j
	for j, bl := range c.Blocks {
		cum[j+1] = cum[j] + bl.Count
		total += bl.Count
	}
	run.Log.Add("full n=%d err=%v", len(full.Delivered), full.Err != nil)
	base := func() *Plan { q := p.clone(); q.C07.Family = "baseline"; q.C07.Sites = nil; return q }
	if full.Panic != nil {
		run.Violation("c07/panic", full.PanicSite, fmt.Sprintf("intact file: panic: %v", full.Panic), base())
		return nil
	}
	if full.Err != nil {
		run.Violation("c07/intact-refused", "baseline", fmt.Sprintf("intact %s/%s file refused: %v", pl.File.Writer, codec, full.Err), base())
		return nil
	}
	if int64(len(full.Delivered)) != total || int(total) != len(bf.Values) {
		run.Violation("c07/count", "baseline", fmt.Sprintf("intact file: %d records written, blocks declare %d, %d delivered", len(bf.Values), total, len(full.Delivered)), base())
		return nil
	}
	for i, v := range full.Delivered {
		if ok, where := expectedEqual(bf, i, v); !ok {
			run.Violation("c07/value", "baseline", fmt.Sprintf("intact file: record %d differs from the value written (%s)", i, where), base())
			return nil
		}
	}
	D := full.Delivered
	if len(c.Blocks) >= 2 {
		run.Probes.Inc("files-with-2+-blocks")
	}

	// checkDamaged: err != nil, first `before` records exact, at most `through`.
	checkDamaged := func(out ReadOutcome, before, through int64, what, site string, narrow *Plan) bool {
		if out.Panic != nil {
			run.Violation("c07/panic", out.PanicSite, fmt.Sprintf("%s: panic: %v", what, out.Panic), narrow)
			return false
		}
		if out.Err == nil {
			run.Violation("c07/damage-accepted", site, fmt.Sprintf("%s: ReadFile reported success and delivered %d records", what, len(out.Delivered)), narrow)
			return false
		}
		run.Probes.Inc("err:" + normMsg(out.Err.Error()))
		n := int64(len(out.Delivered))
		if n < before {
			run.Violation("c07/earlier-blocks-lost", site, fmt.Sprintf("%s: only %d records delivered, the %d records of the blocks before the damage are due (err=%v)", what, n, before, out.Err), narrow)
			return false
		}
		if n > through {
			run.Violation("c07/read-past-damage", site, fmt.Sprintf("%s: %d records delivered, more than the %d up to and including the damaged block (err=%v)", what, n, through, out.Err), narrow)
			return false
		}
		for i := int64(0); i < before; i++ {
			if ok, where := EqualNorm(D[i], out.Delivered[i]); !ok {
				run.Violation("c07/earlier-record-differs", site, fmt.Sprintf("%s: record %d (from a block before the damage) differs at %s", what, i, where), narrow)
				return false
			}
		}
		return true
	}

	flip := func(off, bit int) []byte {
		d := append([]byte{}, data...)
		d[off] ^= 1 << uint(bit)
		return d
	}
	narrowSite := func(s C07Site) *Plan {
		q := p.clone()
		q.C07.Sites = []C07Site{s}
		return q
	}
	// pick bits of a byte range: all, or a sample
	bitsOf := func(off, n, sample int) []C07Site {
		var out []C07Site
		if pl.AllBits || n*8 <= sample {
			for i := 0; i < n; i++ {
				for b := 0; b < 8; b++ {
					out = append(out, C07Site{Off: off + i, Bit: b})
				}
			}
			return out
		}
		seen := map[int]bool{}
		for k := 0; len(out) < sample && k < len(pl.BitSample); k++ {
			x := int(pl.BitSample[k] % uint32(n*8))
			if seen[x] {
				continue
			}
			seen[x] = true
			out = append(out, C07Site{Off: off + x/8, Bit: x % 8})
		}
		return out
	}
	blockOfOff := func(off int) int {
		for j, bl := range c.Blocks {
			if off >= bl.Start && off < bl.End {
				return j
			}
		}
		return -1
	}

	executed := 0
	switch pl.Family {
	case "baseline":
	case "sync":
		sites := pl.Sites
		if sites == nil {
			sites = append(sites, bitsOf(c.SyncOff, 16, 16)...)
			for _, bl := range c.Blocks {
				sites = append(sites, bitsOf(bl.PayloadEnd, 16, 16)...)
			}
		}
		for _, s := range sites {
			tick()
			if s.Off < c.SyncOff || s.Off >= len(data) {
				continue
			}
			out := readAllOut(target, pl.Chunks.OutPtr, openReader(flip(s.Off, s.Bit), pl.Chunks), -1, nil)
			run.Evals++
			executed++
			j := blockOfOff(s.Off)
			run.Log.Add("sync off=%d bit=%d n=%d err=%v", s.Off, s.Bit, len(out.Delivered), out.Err != nil)
			if j < 0 {
				// header marker
				run.Faults.Inc("S-flip(header-sync)")
				run.Sig("sync|header|%s|%s|bit%d|blocks:%s", codec, pl.File.Writer, s.Bit, bucket(len(c.Blocks)))
				if len(c.Blocks) == 0 {
					continue // still a valid, empty file
				}
				if !checkDamaged(out, 0, cum[1], fmt.Sprintf("header sync marker bit flipped (offset %d bit %d), %d blocks follow", s.Off, s.Bit, len(c.Blocks)), "sync/header", narrowSite(s)) {
					return nil
				}
				continue
			}
			run.Faults.Inc("S-flip(block-sync)")
			run.Sig("sync|block|%s|%s|%s|bit%d", codec, pl.File.Writer, posClass(j, len(c.Blocks)), s.Bit)
			if !checkDamaged(out, cum[j], cum[j+1], fmt.Sprintf("sync marker of block %d of %d: bit flipped (offset %d bit %d)", j, len(c.Blocks), s.Off, s.Bit), "sync/block", narrowSite(s)) {
				return nil
			}
		}
	case "crc":
		if codec != "snappy" {
			break
		}
		sites := pl.Sites
		if sites == nil {
			for _, bl := range c.Blocks {
				if bl.Size >= 4 {
					sites = append(sites, bitsOf(bl.PayloadEnd-4, 4, 32)...)
				}
			}
		}
		for _, s := range sites {
			tick()
			j := blockOfOff(s.Off)
			if j < 0 {
				continue
			}
			out := readAllOut(target, pl.Chunks.OutPtr, openReader(flip(s.Off, s.Bit), pl.Chunks), -1, nil)
			run.Evals++
			executed++
			run.Faults.Inc("S-flip(snappy-crc)")
			run.Log.Add("crc off=%d bit=%d n=%d err=%v", s.Off, s.Bit, len(out.Delivered), out.Err != nil)
			run.Sig("crc|%s|%s|byte%d|bit%d", pl.File.Writer, posClass(j, len(c.Blocks)), s.Off-(c.Blocks[j].PayloadEnd-4), s.Bit)
			if !checkDamaged(out, cum[j], cum[j+1], fmt.Sprintf("snappy checksum of block %d of %d: bit flipped (offset %d bit %d)", j, len(c.Blocks), s.Off, s.Bit), "crc", narrowSite(s)) {
				return nil
			}
		}
	case "payload":
		if (codec != "deflate" && codec != "snappy") || len(c.Blocks) == 0 {
			break
		}
		sites := pl.Sites
		if sites == nil {
			j := pl.Block % len(c.Blocks)
			bl := c.Blocks[j]
			n := int(bl.Size)
			if codec == "snappy" {
				n -= 4
			}
			if n > 0 {
				sites = bitsOf(bl.PayloadOff, n, 64)
			}
		}
		for _, s := range sites {
			tick()
			j := blockOfOff(s.Off)
			if j < 0 {
				continue
			}
			bl := c.Blocks[j]
			d := flip(s.Off, s.Bit)
			_, derr := ref.Decompress(codec, d[bl.PayloadOff:bl.PayloadEnd])
			if derr == nil {
				// deflate has no checksum: the decompressor accepts this
				// altered stream, C07 demands nothing, and what the record
				// decoder makes of the altered payload is C06's question —
				// the read is not even executed here.
				run.Probes.Inc("decompressor-accepted-altered-stream:" + codec)
				run.Log.Add("payload off=%d bit=%d accepted", s.Off, s.Bit)
				continue
			}
			out := readAllOut(target, pl.Chunks.OutPtr, openReader(d, pl.Chunks), -1, nil)
			run.Evals++
			executed++
			run.Faults.Inc("S-flip(compressed-payload)")
			run.Log.Add("payload off=%d bit=%d rejected n=%d err=%v", s.Off, s.Bit, len(out.Delivered), out.Err != nil)
			run.Probes.Inc("decompressor-rejected:" + codec)
			run.Sig("payload|%s|rejected|%s|%s|bit%d", codec, pl.File.Writer, posClass(j, len(c.Blocks)), s.Bit)
			if !checkDamaged(out, cum[j], cum[j+1], fmt.Sprintf("%s payload of block %d of %d: bit flipped (offset %d bit %d); the independent decompressor rejects it (%v)", codec, j, len(c.Blocks), s.Off, s.Bit, derr), "payload/"+codec, narrowSite(s)) {
				return nil
			}
		}
	case "magic":
		sites := pl.Sites
		if sites == nil {
			for i := 0; i < 4; i++ {
				for b := 0; b < 8; b++ {
					sites = append(sites, C07Site{Off: i, Bit: b})
				}
			}
		}
		for _, s := range sites {
			tick()
			if s.Off > 3 {
				continue
			}
			out := readAllOut(target, pl.Chunks.OutPtr, openReader(flip(s.Off, s.Bit), pl.Chunks), -1, nil)
			run.Evals++
			executed++
			run.Faults.Inc("S-flip(magic)")
			run.Log.Add("magic off=%d bit=%d n=%d err=%v", s.Off, s.Bit, len(out.Delivered), out.Err != nil)
			run.Sig("magic|byte%d|bit%d", s.Off, s.Bit)
			if !checkDamaged(out, 0, 0, fmt.Sprintf("magic byte %d bit %d flipped", s.Off, s.Bit), "magic", narrowSite(s)) {
				return nil
			}
		}
	case "no-schema", "unknown-codec", "no-codec":
		var blocks []ref.BlockSpec
		for _, bl := range c.Blocks {
			blocks = append(blocks, ref.BlockSpec{Count: bl.Count, Stored: data[bl.PayloadOff:bl.PayloadEnd]})
		}
		var meta []ref.KV
		for _, m := range c.Meta {
			switch {
			case pl.Family == "no-schema" && m.Key == "avro.schema":
				continue
			case pl.Family == "no-codec" && m.Key == "avro.codec":
				continue
			case pl.Family == "unknown-codec" && m.Key == "avro.codec":
				meta = append(meta, ref.KV{Key: m.Key, Val: []byte(pl.CodecName)})
				continue
			}
			meta = append(meta, ref.KV{Key: m.Key, Val: m.Val})
		}
		if pl.Family == "unknown-codec" {
			if _, ok := c.MetaValue("avro.codec"); !ok {
				meta = append(meta, ref.KV{Key: "avro.codec", Val: []byte(pl.CodecName)})
			}
			if pl.CodecName == "null" || pl.CodecName == "deflate" || pl.CodecName == "snappy" {
				break
			}
		}
		// the same header in front of the file's blocks, and in front of nothing at
		// all (a header-only file is a container too, and a header the property
		// names as damaged is no less damaged for having no blocks behind it)
		variants := [][]ref.BlockSpec{blocks}
		if len(blocks) > 0 {
			variants = append(variants, nil)
		}
		for vi, vblocks := range variants {
			wantD := D
			hdrOnly := ""
			if vi == 1 {
				wantD = nil
				hdrOnly = " (header-only file)"
			}
			d := ref.WriteContainer(ref.Magic, meta, c.Sync, vblocks)
			out := readAllOut(target, pl.Chunks.OutPtr, openReader(d, pl.Chunks), -1, nil)
			run.Evals++
			executed++
			run.Faults.Inc("S-meta(" + pl.Family + ")")
			run.Log.Add("%s v%d n=%d err=%v", pl.Family, vi, len(out.Delivered), out.Err != nil)
			run.Sig("%s|%s|%s|blocks:%s", pl.Family, codec, pl.File.Writer, bucket(len(vblocks)))
			if pl.Family == "no-codec" {
				if codec != "null" {
					break
				}
				if out.Panic != nil {
					run.Violation("c07/panic", out.PanicSite, fmt.Sprintf("header without avro.codec%s: panic: %v", hdrOnly, out.Panic), nil)
					return nil
				}
				if out.Err != nil || len(out.Delivered) != len(wantD) {
					run.Violation("c07/no-codec-not-null", "no-codec", fmt.Sprintf("header without avro.codec over uncompressed blocks%s: %d of %d records delivered, err=%v (must read like the null codec)", hdrOnly, len(out.Delivered), len(wantD), out.Err), nil)
					return nil
				}
				for i := range wantD {
					if ok, where := EqualNorm(wantD[i], out.Delivered[i]); !ok {
						run.Violation("c07/no-codec-not-null", "no-codec", fmt.Sprintf("header without avro.codec: record %d differs from the null-codec read at %s", i, where), nil)
						return nil
					}
				}
				continue
			}
			what := "header without avro.schema" + hdrOnly
			if pl.Family == "unknown-codec" {
				what = fmt.Sprintf("header with avro.codec=%q%s", pl.CodecName, hdrOnly)
			}
			if !checkDamaged(out, 0, 0, what, pl.Family, nil) {
				return nil
			}
		}
	case "callback":
		recs := []int{}
		if pl.Sites != nil {
			for _, s := range pl.Sites {
				recs = append(recs, s.Rec)
			}
		} else {
			for i := range D {
				recs = append(recs, i)
			}
		}
		cbErr := c07CallbackErr(pl.CbErr)
		for _, i := range recs {
			tick()
			if i >= len(D) {
				continue
			}
			out := readAllOut(target, pl.Chunks.OutPtr, openReader(data, pl.Chunks), i, cbErr)
			run.Evals++
			executed++
			run.Faults.Inc("CB-err(i)")
			run.Log.Add("cb i=%d n=%d", i, len(out.Delivered))
			j := 0
			for j < len(c.Blocks) && cum[j+1] <= int64(i) {
				j++
			}
			posInBlock := "mid"
			if int64(i) == cum[j] {
				posInBlock = "first-of-block"
			} else if int64(i) == cum[j+1]-1 {
				posInBlock = "last-of-block"
			}
			run.Sig("callback|%s|%s|%s|%s|%s", codec, pl.File.Writer, posClass(j, len(c.Blocks)), posInBlock, pl.CbErr)
			nar := narrowSite(C07Site{Rec: i})
			if out.Panic != nil {
				run.Violation("c07/panic", out.PanicSite, fmt.Sprintf("callback failing at record %d: panic: %v", i, out.Panic), nar)
				return nil
			}
			if out.Err != cbErr {
				run.Violation("c07/callback-error-changed", "callback", fmt.Sprintf("callback returned the error value %q (%s) at record %d of %d; ReadFile returned %q instead of that same error value", cbErr, pl.CbErr, i, len(D), errString(out.Err)), nar)
				return nil
			}
			if len(out.Delivered) != i+1 {
				run.Violation("c07/callback-not-stopped", "callback", fmt.Sprintf("callback failed at record %d; it was invoked %d times (want %d)", i, len(out.Delivered), i+1), nar)
				return nil
			}
			for k := 0; k <= i; k++ {
				if ok, where := EqualNorm(D[k], out.Delivered[k]); !ok {
					run.Violation("c07/earlier-record-differs", "callback", fmt.Sprintf("callback failing at %d: record %d differs at %s", i, k, where), nar)
					return nil
				}
			}
		}
	}
	if executed == 0 && pl.Family != "baseline" {
		run.Probes.Inc("family-had-no-site:" + pl.Family)
	}
	return map[string]any{"file_len": len(data), "blocks": len(c.Blocks), "records": len(D), "family": pl.Family, "faulted_reads": executed}
}

func (c07Prop) Shrink(p *Plan) []*Plan {
	var out []*Plan
	mut := func(f func(q *C07Plan)) {
		q := p.clone()
		q.C07.Sites = nil
		f(q.C07)
		out = append(out, q)
	}
	fs := p.C07.File
	for _, n := range shrinkInts(fs.N) {
		mut(func(q *C07Plan) { q.File = shrinkFileN(q.File, n) })
	}
	if fs.VClass > 0 {
		mut(func(q *C07Plan) { q.File.VClass = 0 })
	}
	if len(fs.Flush) > 0 {
		mut(func(q *C07Plan) { q.File.Flush = nil })
	}
	if fs.SplitMode != 0 {
		mut(func(q *C07Plan) { q.File.SplitMode = 0 })
	}
	if fs.NullSecond {
		mut(func(q *C07Plan) { q.File.NullSecond = false })
	}
	if fs.Type != "One" && fs.Writer == "enc" {
		mut(func(q *C07Plan) { q.File.Type = "One" })
		mut(func(q *C07Plan) { q.File.Type = "Flat" })
	}
	if p.C07.Family != "crc" && p.C07.Family != "payload" && fs.Codec != "null" {
		mut(func(q *C07Plan) { q.File.Codec = "null" })
	}
	if !(len(p.C07.Chunks.Sizes) == 1 && p.C07.Chunks.Sizes[0] == 1<<20) || p.C07.Chunks.EOFWith || p.C07.Chunks.ZeroAt != 0 {
		mut(func(q *C07Plan) { q.Chunks = ChunkSpec{Sizes: []int{1 << 20}} })
	}
	return out
}
