package main

import (
	"bufio"
	"encoding/json"
	"fmt"
	"os"
	"runtime"
	"runtime/debug"
	"strings"
	"sync/atomic"
	"syscall"
	"time"
)

// Plan is the complete description of one simulated run: every choice the
// executor will make is in here. Exactly one of the per-property bodies is
// set.
type Plan struct {
	Prop string `json:"property"`
	Seed uint64 `json:"seed"`
	Idx  int    `json:"idx"`
	Tier string `json:"tier,omitempty"`

	C06 *C06Plan `json:"c06,omitempty"`
	C07 *C07Plan `json:"c07,omitempty"`
	C08 *C08Plan `json:"c08,omitempty"`
	C09 *C09Plan `json:"c09,omitempty"`
	C10 *C10Plan `json:"c10,omitempty"`
	C11 *C11Plan `json:"c11,omitempty"`
	C12 *C12Plan `json:"c12,omitempty"`
	C16 *C16Plan `json:"c16,omitempty"`
}

func (p *Plan) clone() *Plan {
	b, err := json.Marshal(p)
	if err != nil {
		panic(err)
	}
	var q Plan
	if err := json.Unmarshal(b, &q); err != nil {
		panic(err)
	}
	return &q
}

// Result is what a worker reports for one plan.
type Result struct {
	Idx     int    `json:"idx"`
	Verdict string `json:"verdict"` // ok | violation | infra
	Class   string `json:"class,omitempty"`
	Site    string `json:"site,omitempty"`
	Detail  string `json:"detail,omitempty"`
	// Narrow, when set, is a plan reduced to the single failing case
	// (specific cut, bit, write index …) that the worker already identified.
	Narrow *Plan `json:"narrow,omitempty"`
	// NarrowedCase is the index of the case Narrow was cut down to (-1 unknown).
	NarrowedCase int `json:"narrowed_case,omitempty"`

	Evals   int      `json:"evals"`
	Sigs    []string `json:"sigs,omitempty"` // distinct non-trivial coverage signatures hit
	Faults  Counter  `json:"faults,omitempty"`
	Probes  Counter  `json:"probes,omitempty"`
	Events  int      `json:"events"`
	LogHash string   `json:"log_hash"`
	Sample  any      `json:"sample,omitempty"`
}

func (r *Result) key() string { return r.Class + "|" + r.Site }

// Run accumulates one plan's execution inside the worker.
type Run struct {
	Log    EventLog
	Evals  int
	sigs   map[string]bool
	Faults Counter
	Probes Counter
	res    *Result
}

func newRun() *Run {
	return &Run{sigs: map[string]bool{}, Faults: Counter{}, Probes: Counter{}}
}

func (r *Run) Sig(format string, args ...any) { r.sigs[fmt.Sprintf(format, args...)] = true }

// Violation records the first violation of the run.
func (r *Run) Violation(class, site, detail string, narrow *Plan) {
	if r.res != nil {
		return
	}
	r.res = &Result{Verdict: "violation", Class: class, Site: site, Detail: detail, Narrow: narrow}
}

func (r *Run) Infra(detail string) {
	if r.res != nil && r.res.Verdict == "violation" {
		return
	}
	r.res = &Result{Verdict: "infra", Detail: detail}
}

func (r *Run) Failed() bool { return r.res != nil }

func (r *Run) finish(idx int) *Result {
	res := r.res
	if res == nil {
		res = &Result{Verdict: "ok"}
	}
	res.Idx = idx
	res.Evals = r.Evals
	res.Sigs = sortedKeys(r.sigs)
	res.Faults = r.Faults
	res.Probes = r.Probes
	res.Events = r.Log.Events
	res.LogHash = r.Log.Hash()
	return res
}

// tick journals progress ("@@T") to stderr at most five times a second. The
// controller's CPU budget counts from the last journal line, so a long but
// progressing plan is never mistaken for a hang, while a single library call
// that never returns still is. Safe to call from any goroutine.
var lastTick atomic.Int64

func tick() {
	now := time.Now().UnixNano()
	last := lastTick.Load()
	if now-last < int64(200*time.Millisecond) {
		return
	}
	if lastTick.CompareAndSwap(last, now) {
		os.Stderr.WriteString("@@T\n")
	}
}

// Property is one claimed property's simulation.
type Property interface {
	ID() string
	Level() string
	// Count is the number of plans for a tier.
	Count(tier string) int
	// Generate is the pure function G(seed, idx, tier).
	Generate(seed uint64, idx int, tier string) *Plan
	// Execute runs the plan against the real library. Runs in a worker.
	Execute(p *Plan, run *Run) (sample any)
	// Shrink proposes simpler plans, most aggressive first.
	Shrink(p *Plan) []*Plan
	Rule() string
	Assumptions() []string
	// Race: worker binary must be the -race build.
	Race() bool
}

var properties = map[string]Property{}

func register(p Property) { properties[p.ID()] = p }

// ---------------------------------------------------------------------------
// Worker

type workerMsg struct {
	Plan *Plan `json:"plan"`
}

func workerMain(prop string) {
	p, ok := properties[prop]
	if !ok {
		fmt.Fprintf(os.Stderr, "unknown property %s\n", prop)
		os.Exit(2)
	}
	if !p.Race() {
		// Address-space cap: a runaway allocation kills this child, not the sandbox.
		lim := uint64(6 << 30)
		_ = syscall.Setrlimit(syscall.RLIMIT_AS, &syscall.Rlimit{Cur: lim, Max: lim})
	}
	if os.Getenv("VERIF_GOGC_OFF") != "0" {
		debug.SetGCPercent(-1)
	}
	installRandSeam()
	// A worker whose controller has died (killed, crashed) must not go on
	// spinning in a plan nobody will judge.
	ppid := os.Getppid()
	go func() {
		for {
			time.Sleep(time.Second)
			if os.Getppid() != ppid {
				os.Exit(3)
			}
		}
	}()
	in := bufio.NewReaderSize(os.Stdin, 1<<20)
	out := bufio.NewWriter(os.Stdout)
	enc := json.NewEncoder(out)
	executed := 0
	for {
		line, err := in.ReadBytes('\n')
		if len(line) == 0 && err != nil {
			return
		}
		var msg workerMsg
		if jerr := json.Unmarshal(line, &msg); jerr != nil || msg.Plan == nil {
			fmt.Fprintf(os.Stderr, "worker: bad message: %v\n", jerr)
			os.Exit(2)
		}
		fmt.Fprintf(os.Stderr, "@@BEGIN %d\n", msg.Plan.Idx)
		res := executePlan(p, msg.Plan)
		fmt.Fprintf(os.Stderr, "@@END %d\n", msg.Plan.Idx)
		if err := enc.Encode(res); err != nil {
			os.Exit(2)
		}
		out.Flush()
		executed++
		// With the collector off, garbage accumulates; collect between plans
		// (never inside one unless the plan says so).
		if executed%8 == 0 || p.ID() == "C11" {
			runtime.GC()
		} else {
			heapHygiene()
		}
	}
}

func executePlan(p Property, plan *Plan) (res *Result) {
	run := newRun()
	var sample any
	func() {
		defer func() {
			if r := recover(); r != nil {
				// A panic escaping the executor itself (library panics are
				// recovered closer to the call and judged there).
				run.Infra(fmt.Sprintf("harness panic: %v\n%s", r, debug.Stack()))
			}
		}()
		sample = p.Execute(plan, run)
	}()
	res = run.finish(plan.Idx)
	res.Sample = sample
	return res
}

// envInt reads an integer environment variable.
func envInt(name string, def int) int {
	if s := os.Getenv(name); s != "" {
		var v int
		if _, err := fmt.Sscanf(s, "%d", &v); err == nil {
			return v
		}
	}
	return def
}

func envSeed(tier string) uint64 {
	if s := strings.TrimSpace(os.Getenv("VERIF_SEED")); s != "" {
		var v uint64
		if _, err := fmt.Sscanf(s, "%d", &v); err == nil {
			return v
		}
		var sv int64
		if _, err := fmt.Sscanf(s, "%d", &sv); err == nil {
			return uint64(sv)
		}
	}
	if tier == "thorough" {
		return 20261004
	}
	return 1
}
