package main

import (
	"errors"
	"fmt"
	"reflect"
	"runtime"
	"sort"
	"strings"
	"time"
	"unsafe"

	"github.com/philpearl/avro"

	"verif/sim/ref"
)

// C10 — delivered values stay intact until their resource bank is closed.
//
// 1..3 reader tasks (ReadFile on its own goroutine, each over its own
// multi-block file) run as coroutines: a task runs until its next callback and
// parks there; the plan says which task steps next. The bank pool is the
// simulator's (hooks H1/H2): at each Get the plan chooses which free bank — or
// a fresh one — is issued. A fourth entity drives ReadBuf/ResourceBank
// directly (NewReadBuf, Alloc, NextAsString, ExtractResourceBank, ToString,
// Close).

type C10Op struct {
	Op string `json:"op"` // step close abort ualloc uintern rnew ralloc rstr rextract
	A  int    `json:"a"`  // task / held index (taken modulo what exists)
	B  int    `json:"b"`  // type index / length
}

type C10Plan struct {
	Files  []FileSpec  `json:"files"`
	Chunks []ChunkSpec `json:"chunks"`
	Ops    []C10Op     `json:"ops"`
	// Pool[k] decides the k-th bank request: -1 fresh; otherwise index into the
	// free list (0 = oldest … ; taken modulo its length; 1<<30 = newest).
	Pool  []int  `json:"pool"`
	VSeed uint64 `json:"vseed"`
}

type c10Prop struct{}

func init() { register(c10Prop{}) }

func (c10Prop) ID() string    { return "C10" }
func (c10Prop) Level() string { return "exploration" }
func (c10Prop) Race() bool    { return false }

func (c10Prop) Count(tier string) int {
	if tier == "thorough" {
		return 400000
	}
	return 10000
}

func (c10Prop) Rule() string {
	return "plan = 1..3 multi-block files (own codec, type, block structure) read by interleaved reader tasks + one direct ReadBuf/ResourceBank user; a list of <=150 operations {step task, close held bank, abort task, allocate/intern from a held record's bank, NewReadBuf/Alloc/NextAsString/ExtractResourceBank}; and the simulated pool's choice for every bank request (oldest / newest / other free bank / fresh). One execution = one operation followed by all invariants over everything still held. " +
		"Non-trivial = an operation executed while at least one bank has been recycled. distinct_nontrivial counts distinct (operation, open-bank bucket, free-pool bucket, pool choice kind, bank crossed readers?) signatures."
}

func (c10Prop) Assumptions() []string {
	return []string{
		"the simulated pool is a sound over-approximation of sync.Pool's contract: Get returns any bank previously Put (never one that is still issued) or a new zero bank",
		"values are never inspected after their bank is closed; before closing a bank the harness overwrites everything it legitimately owns in it (poison), so stale content would be visible to a later user of that memory",
		"each delivered record is compared with the same record read with fresh banks only (so what the decoder makes of a value is not judged here) and, while its bank is open, with a deep copy taken at delivery",
		"curated record types and ~12 allocation types",
	}
}

var c10Types = []string{"Mixed", "Nested", "Ptrs", "Slices", "Maps", "Timed", "Flat", "Mixed", "Nested", "PlainOmit", "Omit", "PtrSlices", "PtrSlices", "Nulls", "NullPtrs", "NullPtrs", "Timed", "MapPtrs", "MapPtrs", "Narrow", "Narrow", "Fixed", "Fixed"}

var c10AllocTypes = []reflect.Type{
	reflect.TypeFor[int64](), reflect.TypeFor[bool](), reflect.TypeFor[string](), reflect.TypeFor[[]byte](),
	reflect.TypeFor[Inner](), reflect.TypeFor[Nested](), reflect.TypeFor[*int64](), reflect.TypeFor[[3]int32](),
	reflect.TypeFor[struct{}](), reflect.TypeFor[struct{ A byte }](), reflect.TypeFor[OneMap](), reflect.TypeFor[float64](),
	reflect.TypeFor[time.Time](), reflect.TypeFor[Ptrs](),
}

func (c10Prop) Generate(seed uint64, idx int, tier string) *Plan {
	r := NewRng(seed, uint64(idx)<<8|0x10)
	pl := &C10Plan{VSeed: r.Uint64()}
	nt := r.Range(1, 3)
	for i := 0; i < nt; i++ {
		fs := genFileSpec(r, c10Types, true, 30)
		if fs.N < 4 {
			fs.N = r.Range(4, 30)
			if fs.Writer == "ref" {
				fs.Parts = nil
				left := fs.N
				for left > 0 {
					c := r.Range(1, min(left, 6))
					fs.Parts = append(fs.Parts, c)
					left -= c
				}
			}
		}
		if fs.Writer == "enc" {
			fs.BlockSize = r.PickInt([]int{0, 1, 30, 100, 400, 2000})
		}
		fs.VClass = r.PickInt([]int{0, 1, 2, 2, 3})
		pl.Files = append(pl.Files, fs)
		pl.Chunks = append(pl.Chunks, genChunks(r))
	}
	nops := r.Range(10, 150)
	for i := 0; i < nops; i++ {
		x := r.Intn(100)
		op := C10Op{A: r.Intn(1 << 16), B: r.Intn(1 << 16)}
		switch {
		case x < 48:
			op.Op = "step"
		case x < 72:
			op.Op = "close"
		case x < 73:
			op.Op = "abort"
		case x < 75:
			op.Op = "gc"
		case x < 78:
			op.Op = "restart"
		case x < 81:
			op.Op = "ualloc"
		case x < 87:
			op.Op = "uintern"
		case x < 89:
			op.Op = "rnew"
		case x < 93:
			op.Op = "ralloc"
		case x < 95:
			op.Op = "rstr"
		case x < 97:
			op.Op = "rdecode"
		case x < 98:
			op.Op = "tzchurn"
		default:
			op.Op = "rextract"
		}
		pl.Ops = append(pl.Ops, op)
	}
	np := r.Range(4, 40)
	mode := r.Intn(5)
	for i := 0; i < np; i++ {
		switch mode {
		case 0:
			pl.Pool = append(pl.Pool, 1<<30) // LIFO
		case 1:
			pl.Pool = append(pl.Pool, 0) // FIFO
		default:
			switch r.Intn(5) {
			case 0:
				pl.Pool = append(pl.Pool, -1)
			case 1:
				pl.Pool = append(pl.Pool, 1<<30)
			case 2:
				pl.Pool = append(pl.Pool, 0)
			default:
				pl.Pool = append(pl.Pool, r.Intn(1<<10))
			}
		}
	}
	return &Plan{Prop: "C10", Seed: seed, Idx: idx, Tier: tier, C10: pl}
}

// ---------------------------------------------------------------------------
// The simulated bank pool

type simPool struct {
	free     []*avro.ResourceBank
	state    map[*avro.ResourceBank]int // 1 issued, 2 free
	owner    map[*avro.ResourceBank]int // task that last closed it
	choices  []int
	k        int
	recycled int
	crossed  int
	lastKind string
	curTask  int
	problem  string
	freshAll bool
}

func newSimPool(choices []int) *simPool {
	return &simPool{state: map[*avro.ResourceBank]int{}, owner: map[*avro.ResourceBank]int{}, choices: choices}
}

func (sp *simPool) get() *avro.ResourceBank {
	c := -1
	if !sp.freshAll && len(sp.choices) > 0 {
		c = sp.choices[sp.k%len(sp.choices)]
	}
	sp.k++
	if c < 0 || len(sp.free) == 0 {
		rb := new(avro.ResourceBank)
		sp.state[rb] = 1
		sp.lastKind = "fresh"
		if len(sp.free) == 0 && c >= 0 {
			sp.lastKind = "fresh-empty"
		}
		return rb
	}
	i := 0
	switch {
	case c >= 1<<30:
		i = len(sp.free) - 1
		sp.lastKind = "newest"
	case c == 0:
		sp.lastKind = "oldest"
	default:
		i = c % len(sp.free)
		sp.lastKind = "other"
	}
	rb := sp.free[i]
	sp.free = append(sp.free[:i], sp.free[i+1:]...)
	if sp.state[rb] != 2 {
		sp.problem = "pool bookkeeping: issuing a bank that is not free"
	}
	sp.state[rb] = 1
	sp.recycled++
	if o, ok := sp.owner[rb]; ok && o != sp.curTask {
		sp.crossed++
		sp.lastKind += "+crossed"
	}
	return rb
}

func (sp *simPool) put(rb *avro.ResourceBank) bool {
	switch sp.state[rb] {
	case 2:
		sp.problem = "a bank was closed twice without being reissued in between"
		return true
	case 0:
		// a bank the pool never issued (zero value made elsewhere): adopt it
	}
	sp.state[rb] = 2
	sp.owner[rb] = sp.curTask
	sp.free = append(sp.free, rb)
	return true
}

// ---------------------------------------------------------------------------

type c10Delivery struct {
	val   unsafe.Pointer
	rb    *avro.ResourceBank
	done  bool
	err   error
	panic any
	site  string
}

type c10Task struct {
	idx       int
	bf        *BuiltFile
	toTask    chan int
	fromTask  chan c10Delivery
	started   bool
	finished  bool
	delivered int
	out       any
	aborted   bool
}

var errC10Abort = errors.New("c10: abort")

type c10Obj struct {
	v      reflect.Value // addressable value living in bank memory
	shadow reflect.Value
}

type c10Str struct {
	s    string
	want string
}

// zoneNames collects (cloned) the zone name of every time a value holds: the
// name is part of what is reachable from a delivered record.
func zoneNames(v reflect.Value, out *[]string) {
	t := v.Type()
	if t == timeType {
		name, _ := v.Interface().(time.Time).Zone()
		*out = append(*out, strings.Clone(name))
		return
	}
	switch t.Kind() {
	case reflect.Pointer:
		if !v.IsNil() {
			zoneNames(v.Elem(), out)
		}
	case reflect.Struct:
		for i := 0; i < t.NumField(); i++ {
			zoneNames(v.Field(i), out)
		}
	case reflect.Slice, reflect.Array:
		if t.Elem().Kind() == reflect.Uint8 {
			return
		}
		for i := 0; i < v.Len(); i++ {
			zoneNames(v.Index(i), out)
		}
	case reflect.Map:
		keys := v.MapKeys()
		sort.Slice(keys, func(i, j int) bool { return keys[i].String() < keys[j].String() })
		for _, k := range keys {
			zoneNames(v.MapIndex(k), out)
		}
	}
}

// c10RetainAllRead reads a whole file the way a caller that keeps everything
// would: every record (struct copy) and its bank are retained until ReadFile
// returns; then each record must still equal the deep copy and the zone names
// taken at its delivery. Only then are the banks closed.
func c10RetainAllRead(target reflect.Type, rd *DiskReader) (out ReadOutcome, changed string) {
	type kept struct {
		rec, shadow reflect.Value
		zones       []string
		rb          *avro.ResourceBank
	}
	var ks []kept
	func() {
		defer func() {
			if p := recover(); p != nil {
				out.Panic, out.PanicSite = p, panicSite()
			}
		}()
		out.Err = avro.ReadFile(rd, reflect.New(target).Elem().Interface(), func(val unsafe.Pointer, rb *avro.ResourceBank) error {
			rec := reflect.New(target).Elem()
			rec.Set(reflect.NewAt(target, val).Elem())
			k := kept{rec: rec, shadow: DeepCopy(rec), rb: rb}
			zoneNames(rec, &k.zones)
			ks = append(ks, k)
			return nil
		})
	}()
	for i, k := range ks {
		if changed == "" {
			if ok, where := EqualNorm(k.shadow, k.rec); !ok {
				changed = fmt.Sprintf("record %d no longer equals the copy taken at delivery: %s", i, where)
			}
			var zn []string
			zoneNames(k.rec, &zn)
			for zi := range zn {
				if changed == "" && zi < len(k.zones) && zn[zi] != k.zones[zi] {
					changed = fmt.Sprintf("record %d: the zone name of a decoded time changed from %q to %q", i, k.zones[zi], clip(zn[zi]))
				}
			}
		}
		out.Delivered = append(out.Delivered, k.shadow)
	}
	for _, k := range ks {
		k.rb.Close()
	}
	return out, changed
}

type c10Held struct {
	zones  []string
	id     int
	rb     *avro.ResourceBank
	closed bool
	task   int
	rec    reflect.Value // shallow struct copy (harness memory) — invalid for direct-bank helds
	shadow reflect.Value
	objs   []c10Obj
	strs   []c10Str
}

type memRange struct {
	lo, hi uintptr
	owner  string
}

// collectRanges gathers the memory a value points to (not the value's own
// storage): pointer targets, string bytes, slice backing arrays.
func collectRanges(v reflect.Value, owner string, out *[]memRange) {
	t := v.Type()
	if t == timeType {
		return
	}
	switch t.Kind() {
	case reflect.String:
		if v.Len() > 0 {
			p := uintptr(unsafe.Pointer(unsafe.StringData(v.String())))
			*out = append(*out, memRange{p, p + uintptr(v.Len()), owner + ":string"})
		}
	case reflect.Slice:
		if v.Len() > 0 && t.Elem().Size() > 0 {
			p := v.Pointer()
			*out = append(*out, memRange{p, p + uintptr(v.Len())*t.Elem().Size(), owner + ":slice"})
		}
		if t.Elem().Kind() != reflect.Uint8 {
			for i := 0; i < v.Len(); i++ {
				collectRanges(v.Index(i), owner, out)
			}
		}
	case reflect.Array:
		for i := 0; i < v.Len(); i++ {
			collectRanges(v.Index(i), owner, out)
		}
	case reflect.Pointer:
		if !v.IsNil() {
			if t.Elem().Size() > 0 {
				p := v.Pointer()
				*out = append(*out, memRange{p, p + t.Elem().Size(), owner + ":ptr"})
			}
			collectRanges(v.Elem(), owner, out)
		}
	case reflect.Map:
		it := v.MapRange()
		for it.Next() {
			collectRanges(it.Key(), owner, out)
			collectRanges(it.Value(), owner, out)
		}
	case reflect.Struct:
		for i := 0; i < t.NumField(); i++ {
			collectRanges(v.Field(i), owner, out)
		}
	}
}

// Poisoning: overwrite memory the user legitimately owns in a bank before the
// bank is closed. Pointer slots only ever receive valid pointers.
var (
	poisonInt    int64 = 0x5a5a5a5a5a5a5a5a
	poisonString       = "☠POISON☠"
	poisonBytes        = []byte{0xde, 0xad, 0xbe, 0xef}
	poisonTime         = time.Unix(666, 666).UTC()
)

func poisonValue(v reflect.Value, depth int) {
	t := v.Type()
	if t == timeType {
		v.Set(reflect.ValueOf(poisonTime))
		return
	}
	switch t.Kind() {
	case reflect.Bool:
		v.SetBool(true)
	case reflect.Int, reflect.Int16, reflect.Int32, reflect.Int64:
		v.SetInt(poisonInt >> (64 - uint(t.Bits())))
	case reflect.Uint8:
		v.SetUint(0xa5)
	case reflect.Float32, reflect.Float64:
		v.SetFloat(12345.678)
	case reflect.String:
		v.SetString(poisonString)
	case reflect.Slice:
		if t.Elem().Kind() == reflect.Uint8 {
			v.SetBytes(poisonBytes)
			return
		}
		s := reflect.MakeSlice(t, 1, 1)
		if depth < 3 {
			poisonValue(s.Index(0), depth+1)
		}
		v.Set(s)
	case reflect.Array:
		for i := 0; i < v.Len(); i++ {
			poisonValue(v.Index(i), depth)
		}
	case reflect.Map:
		m := reflect.MakeMap(t)
		e := reflect.New(t.Elem()).Elem()
		if depth < 3 {
			poisonValue(e, depth+1)
		}
		m.SetMapIndex(reflect.ValueOf("poison").Convert(t.Key()), e)
		v.Set(m)
	case reflect.Pointer:
		p := reflect.New(t.Elem())
		if depth < 3 {
			poisonValue(p.Elem(), depth+1)
		}
		v.Set(p)
	case reflect.Struct:
		for i := 0; i < t.NumField(); i++ {
			poisonValue(v.Field(i), depth)
		}
	}
}

// poisonReachable overwrites what a held record points to inside its bank:
// the bytes of its strings and the targets of its pointers.
func poisonReachable(v reflect.Value) {
	t := v.Type()
	if t == timeType {
		return
	}
	switch t.Kind() {
	case reflect.String:
		if n := v.Len(); n > 0 {
			b := unsafe.Slice(unsafe.StringData(v.String()), n)
			for i := range b {
				b[i] = 0xa5
			}
		}
	case reflect.Slice:
		if t.Elem().Kind() == reflect.Uint8 {
			return
		}
		for i := 0; i < v.Len(); i++ {
			poisonReachable(v.Index(i))
		}
	case reflect.Array:
		for i := 0; i < v.Len(); i++ {
			poisonReachable(v.Index(i))
		}
	case reflect.Pointer:
		if !v.IsNil() {
			poisonReachable(v.Elem()) // first what it points to further down…
			poisonValue(v.Elem(), 0)  // …then the target itself
		}
	case reflect.Map:
		it := v.MapRange()
		for it.Next() {
			poisonReachable(it.Key())
			poisonReachable(it.Value())
		}
	case reflect.Struct:
		for i := 0; i < t.NumField(); i++ {
			poisonReachable(v.Field(i))
		}
	}
}

var c10TimeCodec avro.Codec

func (c10Prop) Execute(p *Plan, run *Run) any {
	pl := p.C10
	pool := newSimPool(pl.Pool)
	avro.SimHooks.BankGet = pool.get
	avro.SimHooks.BankPut = pool.put
	defer func() { avro.SimHooks.BankGet, avro.SimHooks.BankPut = nil, nil }()

	// Build the files and the reference deliveries (fresh banks only).
	var tasks []*c10Task
	var Dref [][]reflect.Value
	pool.freshAll = true
	for i, fs := range pl.Files {
		bf, err := BuildFile(fs)
		if err != nil {
			run.Probes.Inc("skipped:workload-unbuildable")
			run.Log.Add("skip")
			return map[string]any{"skipped": err.Error()}
		}
		pool.curTask = i
		out, changed := c10RetainAllRead(bf.Desc.Type, NewDiskReader(bf.Bytes, pl.Chunks[i%len(pl.Chunks)]))
		run.Evals++
		if changed != "" {
			q := p.clone()
			q.C10.Ops = nil
			q.C10.Files = []FileSpec{fs}
			q.C10.Chunks = []ChunkSpec{pl.Chunks[i%len(pl.Chunks)]}
			run.Violation("c10/held-record-changed", "retain-all-read", fmt.Sprintf("file %d read once with every record and bank retained until the end: %s", i, changed), q)
			return nil
		}
		if out.Panic != nil || out.Err != nil {
			run.Probes.Inc("skipped:plain-read-fails")
			run.Log.Add("skip")
			return map[string]any{"skipped": fmt.Sprint(out.Err, out.Panic)}
		}
		Dref = append(Dref, out.Delivered)
		// Context independence: record i read as the only record of its own
		// file must equal record i read after its predecessors ("a later
		// record never inherits field values from an earlier one").
		if len(out.Delivered) == len(bf.Values) {
			for ri, v := range bf.Values {
				one := fs
				one.Flush, one.Parts = nil, nil
				sf, err := BuildFileWith(one, []reflect.Value{v})
				if err != nil {
					break
				}
				so := readAll(bf.Desc.Type, NewDiskReader(sf.Bytes, ChunkSpec{}), -1, nil)
				run.Evals++
				if so.Panic != nil || so.Err != nil || len(so.Delivered) != 1 {
					break
				}
				if ok, where := EqualNorm(so.Delivered[0], out.Delivered[ri]); !ok {
					q := p.clone()
					q.C10.Ops = nil
					q.C10.Files = []FileSpec{fs}
					q.C10.Chunks = []ChunkSpec{pl.Chunks[i%len(pl.Chunks)]}
					run.Violation("c10/record-depends-on-predecessor", "readfile", fmt.Sprintf("file %d: record %d decodes differently after its predecessors than as the only record of a file (inherited content): %s", i, ri, where), q)
					return nil
				}
			}
		}
		tasks = append(tasks, &c10Task{idx: i, bf: bf, toTask: make(chan int), fromTask: make(chan c10Delivery)})
		if c, err := ref.ParseContainer(bf.Bytes); err == nil {
			for j := 1; j < len(c.Blocks); j++ {
				if c.Blocks[j].Size < c.Blocks[j-1].Size {
					run.Probes.Inc("later-block-smaller(buffer reused)")
				} else if c.Blocks[j].Size > c.Blocks[j-1].Size {
					run.Probes.Inc("later-block-larger(buffer regrown)")
				}
			}
		}
	}
	pool.freshAll = false
	pool.free = nil // banks closed during the reference reads are not offered

	// startTask launches (or relaunches) a reader task. A task whose plan says
	// so passes ReadFile a pointer to ONE struct it owns and reuses that same
	// struct when it is restarted after finishing or being aborted.
	startTask := func(t *c10Task) {
		ch := pl.Chunks[t.idx%len(pl.Chunks)]
		rd := NewDiskReader(t.bf.Bytes, ch)
		if t.out == nil {
			t.out = outFor(t.bf.Desc.Type, ch.OutPtr)
		}
		out := t.out
		go func() {
			if cmd := <-t.toTask; cmd == 1 {
				t.fromTask <- c10Delivery{done: true, err: errC10Abort}
				return
			}
			var d c10Delivery
			d.done = true
			func() {
				defer func() {
					if r := recover(); r != nil {
						d.panic, d.site = r, panicSite()
					}
				}()
				d.err = avro.ReadFile(rd, out, func(val unsafe.Pointer, rb *avro.ResourceBank) error {
					t.fromTask <- c10Delivery{val: val, rb: rb}
					if cmd := <-t.toTask; cmd == 1 {
						return errC10Abort
					}
					return nil
				})
			}()
			t.fromTask <- d
		}()
	}
	for _, t := range tasks {
		startTask(t)
	}
	defer func() {
		for _, t := range tasks {
			if !t.finished {
				t.toTask <- 1
				for d := range t.fromTask {
					if d.done {
						break
					}
					t.toTask <- 1
				}
				t.finished = true
			}
		}
	}()

	// a prepared codec and encoded records for the direct ReadBuf user
	decType := reflect.TypeFor[Ptrs]()
	var decCodec avro.Codec
	var decValues []reflect.Value
	var decPayloads [][]byte
	if sch, err := avro.SchemaForType(Ptrs{}); err == nil {
		if c, err := sch.Codec(Ptrs{}); err == nil {
			decCodec = c
			decValues = GenValues(decType, 4, pl.VSeed^0xdec, 1)
			for _, v := range decValues {
				decPayloads = append(decPayloads, ownEncoding(c, v))
			}
		}
	}
	if decCodec == nil {
		run.Probes.Inc("skipped:workload-unbuildable")
		return nil
	}

	var helds []*c10Held
	var leaked []*c10Held // allocations on dropped ReadBufs: never closed, always live
	var rbuf *avro.ReadBuf
	var rbufData []byte
	rbufHeld := &c10Held{id: -1, task: 99} // allocations made on the current direct ReadBuf
	vr := NewRng(pl.VSeed, 0x10a)          // value content only; derived from the plan
	violated := false
	fail := func(opi int, class, site, msg string) {
		q := p.clone()
		q.C10.Ops = q.C10.Ops[:opi+1]
		run.Violation(class, site, msg, q)
		violated = true
	}
	openHelds := func() []*c10Held {
		var o []*c10Held
		for _, h := range helds {
			if !h.closed {
				o = append(o, h)
			}
		}
		return o
	}

	checkAll := func(opi int, what string) bool {
		if pool.problem != "" {
			fail(opi, "c10/bank-lifecycle", what, fmt.Sprintf("after op %d (%s): %s", opi, what, pool.problem))
			return false
		}
		var ranges []memRange
		all := append(append(openHelds(), rbufHeld), leaked...)
		for _, h := range all {
			if h.closed {
				continue
			}
			owner := fmt.Sprintf("held#%d", h.id)
			if h.rec.IsValid() {
				if ok, where := EqualNorm(h.shadow, h.rec); !ok {
					fail(opi, "c10/held-record-changed", what, fmt.Sprintf("after op %d (%s): record %d of task %d, whose bank is still open, no longer equals the copy taken at delivery: %s", opi, what, h.id, h.task, where))
					return false
				}
				var zn []string
				zoneNames(h.rec, &zn)
				for zi := range zn {
					if zi < len(h.zones) && zn[zi] != h.zones[zi] {
						fail(opi, "c10/held-record-changed", what, fmt.Sprintf("after op %d (%s): record %d of task %d (bank open): the zone name of a decoded time changed from %q to %q", opi, what, h.id, h.task, h.zones[zi], clip(zn[zi])))
						return false
					}
				}
				collectRanges(h.rec, owner+":record", &ranges)
			}
			for k, o := range h.objs {
				if ok, where := EqualNorm(o.shadow, o.v); !ok {
					fail(opi, "c10/allocation-changed", what, fmt.Sprintf("after op %d (%s): allocation %d (%s) from an open bank changed: %s", opi, what, k, o.v.Type(), where))
					return false
				}
				if sz := o.v.Type().Size(); sz > 0 {
					a := uintptr(o.v.Addr().UnsafePointer())
					ranges = append(ranges, memRange{a, a + sz, fmt.Sprintf("%s:alloc#%d(%s)", owner, k, o.v.Type())})
				}
				collectRanges(o.v, fmt.Sprintf("%s:alloc#%d", owner, k), &ranges)
			}
			for k, s := range h.strs {
				if s.s != s.want {
					fail(opi, "c10/interned-string-changed", what, fmt.Sprintf("after op %d (%s): interned string %d from an open bank changed", opi, what, k))
					return false
				}
				if len(s.s) > 0 {
					a := uintptr(unsafe.Pointer(unsafe.StringData(s.s)))
					ranges = append(ranges, memRange{a, a + uintptr(len(s.s)), fmt.Sprintf("%s:interned#%d", owner, k)})
				}
			}
		}
		sort.Slice(ranges, func(i, j int) bool {
			if ranges[i].lo != ranges[j].lo {
				return ranges[i].lo < ranges[j].lo
			}
			return ranges[i].hi < ranges[j].hi
		})
		for i := 1; i < len(ranges); i++ {
			if ranges[i].lo < ranges[i-1].hi {
				fail(opi, "c10/overlap", what, fmt.Sprintf("after op %d (%s): live memory overlaps: %s and %s share %d bytes", opi, what, ranges[i-1].owner, ranges[i].owner, min(ranges[i-1].hi, ranges[i].hi)-ranges[i].lo))
				return false
			}
		}
		return true
	}

	closeHeld := func(h *c10Held) {
		if h.rec.IsValid() {
			poisonReachable(h.rec)
		}
		for _, o := range h.objs {
			poisonReachable(o.v)
			poisonValue(o.v, 0)
		}
		for _, s := range h.strs {
			if n := len(s.s); n > 0 {
				b := unsafe.Slice(unsafe.StringData(s.s), n)
				for i := range b {
					b[i] = 0xa5
				}
			}
		}
		h.closed = true
		pool.curTask = h.task
		h.rb.Close()
	}

	lib := func(f func()) (pan any, site string) {
		defer func() {
			if r := recover(); r != nil {
				pan, site = r, panicSite()
			}
		}()
		f()
		return nil, ""
	}

	var userAlloc1 func(opi int, h *c10Held, alloc func(reflect.Type) unsafe.Pointer, ti int) bool
	// userAlloc allocates one object, or — every fourth time — a burst of up to
	// 160 objects of one type, so that a bank's per-type array is filled and
	// regrown several times while everything allocated earlier is still live.
	userAlloc := func(opi int, h *c10Held, alloc func(reflect.Type) unsafe.Pointer, ti int) bool {
		n := 1
		if (ti>>4)&3 == 0 {
			n = 1 + (ti>>6)%160
			run.Probes.Inc("allocation-burst")
		}
		for k := 0; k < n; k++ {
			if !userAlloc1(opi, h, alloc, ti) {
				return false
			}
		}
		return true
	}
	userAlloc1 = func(opi int, h *c10Held, alloc func(reflect.Type) unsafe.Pointer, ti int) bool {
		t := c10AllocTypes[(ti&15)%len(c10AllocTypes)]
		var ptr unsafe.Pointer
		if pan, site := lib(func() { ptr = alloc(t) }); pan != nil {
			fail(opi, "c10/panic", site, fmt.Sprintf("op %d: Alloc(%s) panicked: %v", opi, t, pan))
			return false
		}
		v := reflect.NewAt(t, ptr).Elem()
		if !v.IsZero() {
			fail(opi, "c10/alloc-not-zeroed", "Alloc", fmt.Sprintf("op %d: Alloc(%s) returned memory that is not all zero: %s", opi, t, Describe(v)))
			return false
		}
		GenValue(v, vr, sizeOpts(1), "")
		h.objs = append(h.objs, c10Obj{v: v, shadow: DeepCopy(v)})
		return true
	}

	executed := 0
	for opi, op := range pl.Ops {
		if violated {
			break
		}
		tick()
		what := op.Op
		nOpen := len(openHelds())
		sigged := func() {
			if pool.recycled > 0 {
				run.Sig("%s|open:%s|free:%s|%s", what, bucket(nOpen), bucket(len(pool.free)), pool.lastKind)
			}
		}
		switch op.Op {
		case "step", "abort":
			t := tasks[op.A%len(tasks)]
			if t.finished {
				run.Log.Add("op %d %s task %d finished", opi, what, t.idx)
				continue
			}
			pool.curTask = t.idx
			cmd := 0
			if op.Op == "abort" {
				cmd = 1
				t.aborted = true
				run.Faults.Inc("CB-err(abort mid-file)")
			}
			t.started = true
			t.toTask <- cmd
			d := <-t.fromTask
			executed++
			run.Evals++
			if d.done {
				t.finished = true
				run.Log.Add("op %d %s task %d done err=%v", opi, what, t.idx, d.err != nil)
				if d.panic != nil {
					fail(opi, "c10/panic", d.site, fmt.Sprintf("op %d: reader task %d panicked: %v", opi, t.idx, d.panic))
					break
				}
				if cmd == 0 && (d.err != nil || t.delivered != len(Dref[t.idx])) {
					fail(opi, "c10/read-differs-under-recycling", "step", fmt.Sprintf("op %d: task %d ended after %d of %d records with err=%v; the same file read with fresh banks only delivers all of them", opi, t.idx, t.delivered, len(Dref[t.idx]), d.err))
					break
				}
				sigged()
				checkAll(opi, what)
				continue
			}
			// a delivery: copy the struct out (as the documentation shows), keep the bank
			i := t.delivered
			t.delivered++
			typ := t.bf.Desc.Type
			rec := reflect.New(typ).Elem()
			rec.Set(reflect.NewAt(typ, d.val).Elem())
			for _, h := range openHelds() {
				if h.rb == d.rb {
					fail(opi, "c10/bank-shared", "step", fmt.Sprintf("op %d: record %d of task %d was delivered with the bank of record held#%d, which is still open", opi, i, t.idx, h.id))
				}
			}
			if violated {
				break
			}
			h := &c10Held{id: len(helds), rb: d.rb, task: t.idx, rec: rec, shadow: DeepCopy(rec)}
			zoneNames(rec, &h.zones)
			helds = append(helds, h)
			run.Log.Add("op %d step task %d rec %d", opi, t.idx, i)
			if i >= len(Dref[t.idx]) {
				fail(opi, "c10/read-differs-under-recycling", "step", fmt.Sprintf("op %d: task %d delivered record %d but the file read with fresh banks has only %d", opi, t.idx, i, len(Dref[t.idx])))
				break
			}
			if ok, where := EqualNorm(Dref[t.idx][i], rec); !ok {
				fail(opi, "c10/inherited-or-corrupt-at-delivery", "step", fmt.Sprintf("op %d: record %d of task %d differs from the same record read with fresh banks only (stale or foreign content): %s", opi, i, t.idx, where))
				break
			}
			sigged()
			checkAll(opi, what)
		case "restart":
			// A finished or aborted reader reads its file again — into the same
			// caller-owned struct when it uses a pointer `out`. Records kept
			// from the earlier pass (banks still open) must stay as delivered.
			t := tasks[op.A%len(tasks)]
			if !t.finished {
				run.Log.Add("op %d restart task %d still running", opi, t.idx)
				continue
			}
			t.finished, t.started, t.aborted, t.delivered = false, false, false, 0
			startTask(t)
			run.Probes.Inc("task-restarted")
			run.Log.Add("op %d restart task %d", opi, t.idx)
		case "gc":
			// A collection may run at any time in a real program: everything
			// still held must survive it (and the reuse of whatever it freed).
			runtime.GC()
			doChurn(ChurnSpec{N: 4, ByteSizes: []int{8, 16, 32, 64, 128}, PtrLens: []int{1, 2, 4, 8, 16}, MapEntries: []int{1, 4, 9}})
			executed++
			run.Evals++
			run.Faults.Inc("GC+churn")
			run.Log.Add("op %d gc", opi)
			sigged()
			checkAll(opi, what)
		case "close":
			o := openHelds()
			if len(o) == 0 {
				run.Log.Add("op %d close none", opi)
				continue
			}
			h := o[op.A%len(o)]
			if pan, site := lib(func() { closeHeld(h) }); pan != nil {
				fail(opi, "c10/panic", site, fmt.Sprintf("op %d: Close panicked: %v", opi, pan))
				break
			}
			executed++
			run.Evals++
			run.Log.Add("op %d close held %d", opi, h.id)
			sigged()
			checkAll(opi, what)
		case "tzchurn":
			// unrelated timestamp parsing elsewhere in the process: 70 zone offsets
			// never seen in the files. Whatever the parser caches per offset, the
			// times already delivered keep their zone.
			if c10TimeCodec == nil {
				if sch, err := avro.SchemaForType(TimeOnly{}); err == nil {
					c10TimeCodec, _ = sch.Codec(TimeOnly{})
				}
			}
			if c10TimeCodec == nil {
				run.Infra("c10: cannot build the timestamp codec")
				return nil
			}
			var perr error
			pan, site := lib(func() {
				for i := 0; i < 70; i++ {
					offMin := (op.A+i*23)%1679 - 839
					sign := "+"
					if offMin < 0 {
						sign, offMin = "-", -offMin
					}
					ts := fmt.Sprintf("2011-03-04T05:06:07%s%02d:%02d", sign, offMin/60, offMin%60)
					var payload []byte
					payload = ref.AppendLong(payload, 1)
					payload = ref.AppendLong(payload, int64(len(ts)))
					payload = append(payload, ts...)
					var out TimeOnly
					rb := avro.NewReadBuf(payload)
					if err := c10TimeCodec.Read(rb, unsafe.Pointer(&out)); err != nil {
						perr = err
					}
					rb.ExtractResourceBank().Close()
				}
			})
			if pan != nil {
				fail(opi, "c10/panic", site, fmt.Sprintf("op %d: parsing timestamps panicked: %v", opi, pan))
				break
			}
			if perr != nil {
				run.Infra("c10: a well-formed timestamp did not parse: " + perr.Error())
				return nil
			}
			executed++
			run.Evals++
			run.Faults.Inc("tz-churn(70 offsets)")
			run.Log.Add("op %d tzchurn", opi)
			sigged()
			checkAll(opi, what)
		case "ualloc", "uintern":
			o := openHelds()
			if len(o) == 0 {
				run.Log.Add("op %d %s none", opi, what)
				continue
			}
			h := o[op.A%len(o)]
			executed++
			run.Evals++
			if op.Op == "ualloc" {
				if !userAlloc(opi, h, h.rb.Alloc, op.B) {
					break
				}
			} else {
				src := genBytes(vr, 40)
				if len(src) == 0 {
					src = []byte("x")
				}
				var s string
				if pan, site := lib(func() { s = h.rb.ToString(src) }); pan != nil {
					fail(opi, "c10/panic", site, fmt.Sprintf("op %d: ToString panicked: %v", opi, pan))
					break
				}
				h.strs = append(h.strs, c10Str{s: s, want: string(src)})
			}
			run.Log.Add("op %d %s held %d", opi, what, h.id)
			sigged()
			checkAll(opi, what)
		case "rnew", "ralloc", "rstr", "rextract", "rdecode":
			pool.curTask = 99
			executed++
			run.Evals++
			if rbuf == nil || op.Op == "rnew" {
				// A ReadBuf that is dropped keeps its bank forever (never closed):
				// its allocations stay live.
				if rbuf != nil && (len(rbufHeld.objs) > 0 || len(rbufHeld.strs) > 0) {
					rbufHeld.id = 1000 + len(leaked)
					leaked = append(leaked, rbufHeld)
					rbufHeld = &c10Held{id: -1, task: 99}
				}
				rbufData = genBytes(vr, 200)
				for len(rbufData) < 64 {
					rbufData = append(rbufData, byte(len(rbufData)))
				}
				if pan, site := lib(func() { rbuf = avro.NewReadBuf(rbufData) }); pan != nil {
					fail(opi, "c10/panic", site, fmt.Sprintf("op %d: NewReadBuf panicked: %v", opi, pan))
					break
				}
			}
			switch op.Op {
			case "ralloc":
				if !userAlloc(opi, rbufHeld, rbuf.Alloc, op.B) {
					break
				}
			case "rstr":
				n := op.B % 24
				if n > rbuf.Len() {
					n = rbuf.Len()
				}
				if n > 0 {
					off := len(rbufData) - rbuf.Len()
					var s string
					var err error
					if pan, site := lib(func() { s, err = rbuf.NextAsString(n) }); pan != nil {
						fail(opi, "c10/panic", site, fmt.Sprintf("op %d: NextAsString panicked: %v", opi, pan))
						break
					}
					if err != nil || s != string(rbufData[off:off+n]) {
						fail(opi, "c10/interned-string-changed", what, fmt.Sprintf("op %d: NextAsString(%d) returned %q err=%v", opi, n, clip(s), err))
						break
					}
					rbufHeld.strs = append(rbufHeld.strs, c10Str{s: s, want: string(rbufData[off : off+n])})
				}
			case "rdecode":
				// Reset the ReadBuf onto a record's encoding and decode it with a
				// prepared codec: everything allocated on this ReadBuf's bank so
				// far stays live (Reset must not recycle the bank).
				di := op.B % len(decPayloads)
				v := reflect.New(decType).Elem()
				var err error
				if pan, site := lib(func() {
					rbuf.Reset(decPayloads[di])
					err = decCodec.Read(rbuf, v.Addr().UnsafePointer())
				}); pan != nil {
					fail(opi, "c10/panic", site, fmt.Sprintf("op %d: Reset+Codec.Read panicked: %v", opi, pan))
					break
				}
				if err != nil {
					fail(opi, "c10/read-differs-under-recycling", what, fmt.Sprintf("op %d: decoding a valid record through a reused ReadBuf failed: %v", opi, err))
					break
				}
				if ok, where := EqualNorm(decValues[di], v); !ok {
					fail(opi, "c10/inherited-or-corrupt-at-delivery", what, fmt.Sprintf("op %d: record decoded through a reused ReadBuf differs from the value encoded: %s", opi, where))
					break
				}
				rbufData = decPayloads[di]
				rbufHeld.objs = append(rbufHeld.objs, c10Obj{v: v, shadow: DeepCopy(v)})
			case "rextract":
				var rb *avro.ResourceBank
				if pan, site := lib(func() { rb = rbuf.ExtractResourceBank() }); pan != nil {
					fail(opi, "c10/panic", site, fmt.Sprintf("op %d: ExtractResourceBank panicked: %v", opi, pan))
					break
				}
				for _, h := range openHelds() {
					if h.rb == rb {
						fail(opi, "c10/bank-shared", what, fmt.Sprintf("op %d: ExtractResourceBank returned a bank that is still held open (held#%d)", opi, h.id))
					}
				}
				rbufHeld.rb = rb
				rbufHeld.id = len(helds)
				helds = append(helds, rbufHeld)
				rbufHeld = &c10Held{id: -1, task: 99}
			}
			if violated {
				break
			}
			run.Log.Add("op %d %s", opi, what)
			sigged()
			checkAll(opi, what)
		}
	}
	run.Probes.Addn("banks-recycled", pool.recycled)
	run.Probes.Addn("bank-crossed-readers", pool.crossed)
	return map[string]any{"tasks": len(tasks), "ops_executed": executed, "records_held": len(helds), "bank_requests": pool.k, "banks_recycled": pool.recycled, "banks_crossed_readers": pool.crossed}
}

func (c10Prop) Shrink(p *Plan) []*Plan {
	var out []*Plan
	mut := func(f func(q *C10Plan)) {
		q := p.clone()
		f(q.C10)
		out = append(out, q)
	}
	pl := p.C10
	n := len(pl.Ops)
	if n > 1 {
		mut(func(q *C10Plan) { q.Ops = q.Ops[n/2:] })
		mut(func(q *C10Plan) { q.Ops = append(append([]C10Op{}, q.Ops[:n/4]...), q.Ops[n/2:]...) })
		for i := 0; i < n-1 && i < 150; i++ {
			i := i
			mut(func(q *C10Plan) { q.Ops = append(append([]C10Op{}, q.Ops[:i]...), q.Ops[i+1:]...) })
		}
	}
	if len(pl.Files) > 1 {
		mut(func(q *C10Plan) { q.Files = q.Files[:1]; q.Chunks = q.Chunks[:1] })
		mut(func(q *C10Plan) { q.Files = q.Files[1:]; q.Chunks = q.Chunks[1:] })
	}
	for i, fs := range pl.Files {
		i := i
		if fs.VClass > 0 {
			mut(func(q *C10Plan) { q.Files[i].VClass = 0 })
		}
		if fs.Codec != "null" {
			mut(func(q *C10Plan) { q.Files[i].Codec = "null" })
		}
		if fs.N > 4 {
			mut(func(q *C10Plan) { q.Files[i] = shrinkFileN(q.Files[i], q.Files[i].N/2) })
		}
	}
	if len(pl.Pool) > 1 {
		mut(func(q *C10Plan) { q.Pool = []int{1 << 30} })
		mut(func(q *C10Plan) { q.Pool = []int{0} })
	}
	return out
}
