package main

import (
	"math/rand/v2"
)

// Rng is the single source of choices for plan generation. The executor never
// owns one: everything it needs is pre-drawn into the plan.
type Rng struct{ *rand.Rand }

func splitmix(x uint64) uint64 {
	x += 0x9e3779b97f4a7c15
	x = (x ^ (x >> 30)) * 0xbf58476d1ce4e5b9
	x = (x ^ (x >> 27)) * 0x94d049bb133111eb
	return x ^ (x >> 31)
}

// NewRng derives an independent stream from (seed, stream id).
func NewRng(seed uint64, stream uint64) *Rng {
	a := splitmix(seed ^ splitmix(stream))
	b := splitmix(a ^ 0xda3e39cb94b95bdb)
	return &Rng{rand.New(rand.NewPCG(a, b))}
}

func (r *Rng) Intn(n int) int {
	if n <= 0 {
		return 0
	}
	return r.IntN(n)
}

// Range returns a value in [lo, hi].
func (r *Rng) Range(lo, hi int) int {
	if hi <= lo {
		return lo
	}
	return lo + r.IntN(hi-lo+1)
}

func (r *Rng) Bool() bool { return r.IntN(2) == 1 }

// P returns true with probability num/den.
func (r *Rng) P(num, den int) bool { return r.IntN(den) < num }

func (r *Rng) Pick(ss []string) string { return ss[r.IntN(len(ss))] }

func (r *Rng) PickInt(xs []int) int { return xs[r.IntN(len(xs))] }

// Ints draws n values in [lo,hi].
func (r *Rng) Ints(n, lo, hi int) []int {
	out := make([]int, n)
	for i := range out {
		out[i] = r.Range(lo, hi)
	}
	return out
}
