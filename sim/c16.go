package main

import (
	"bytes"
	"errors"
	"fmt"
	"io"
	"reflect"

	"github.com/philpearl/avro"
)

// C16 — write failures surface as errors and leave a clean prefix.
//
// A history of public writing calls is executed once fault-free against
// SimDisk (sync marker pinned through crypto/rand.Reader), giving the
// reference stream F and the number of writes W. Then for EVERY write index k
// the identical history is re-executed with W-err(k) and three W-short(k,n).

type C16Plan struct {
	API       string `json:"api"` // encoder | filewriter
	Type      string `json:"type,omitempty"`
	Codec     string `json:"codec"`
	BlockSize int    `json:"block_size,omitempty"`
	VSeed     uint64 `json:"vseed"`
	VClass    int    `json:"vclass"`
	// encoder: op >= 0 encodes value #op, op == -1 flushes.
	// filewriter: op = number of payload bytes of the block (rows = op%7).
	Ops      []int  `json:"ops"`
	SyncSeed uint64 `json:"sync_seed"`
	// Faults: explicit (k, kind) cases; nil = enumerate every k x 5 variants.
	Faults []WFault `json:"faults,omitempty"`
	// Flusher: the destination also has a Flush() error method.
	Flusher bool `json:"flusher,omitempty"`
	// PathErr: injected errors are *fs.PathError values wrapping the sentinel.
	PathErr bool `json:"path_err,omitempty"`
	// ErrTemp: "" | "temporary" | "timeout" (see WFault.Temp).
	ErrTemp string `json:"err_temp,omitempty"`
}

type c16Prop struct{}

func init() { register(c16Prop{}) }

func (c16Prop) ID() string    { return "C16" }
func (c16Prop) Level() string { return "fault_enumeration" }
func (c16Prop) Race() bool    { return false }

func (c16Prop) Count(tier string) int {
	if tier == "thorough" {
		return 150000
	}
	return 3000
}

func (c16Prop) Rule() string {
	return "plan = history over the public writing API (NewEncoderFor + Encode/Flush sequence, or NewFileWriter + WriteHeader + WriteBlock*), codec, block size, seeded values, pinned sync marker. " +
		"For every plan the fault-free run gives F and W; then EVERY write index k in 0..W-1 is failed in 5 variants (error with 0 bytes; short write of 1, len/2, len-1 bytes; error reported after all bytes were taken): one execution = one faulted re-run. " +
		"Non-trivial = the fault fired inside a call. distinct_nontrivial counts distinct (API, call kind, role of the failed write: header/count/length/payload/sync, fault variant, codec) signatures."
}

func (c16Prop) Assumptions() []string {
	return []string{
		"the io.Writer contract: a failing Write returns a non-nil error and reports how many bytes it accepted",
		"crypto/rand.Reader is the only source of the sync marker (verified per run: a marker mismatch between paired runs is reported as infrastructure error, not as a violation)",
		"record types without multi-entry maps (map iteration order has no seam, so their byte stream is not reproducible)",
		"what the encoder does after a failed write is not stated by the property and not judged: the history stops at the first failing call",
	}
}

func (c16Prop) Generate(seed uint64, idx int, tier string) *Plan {
	r := NewRng(seed, uint64(idx)<<8|0x16)
	pl := &C16Plan{Codec: r.Pick(codecNames), VSeed: r.Uint64(), VClass: r.PickInt([]int{0, 1, 1, 2, 3}), SyncSeed: r.Uint64(), Flusher: r.P(1, 4), PathErr: r.P(1, 3)}
	if r.P(1, 4) {
		pl.API = "filewriter"
		n := r.Range(0, 6)
		for i := 0; i < n; i++ {
			pl.Ops = append(pl.Ops, r.PickInt([]int{0, 1, 5, 40, 300, 5000}))
		}
		if r.P(1, 10) {
			// blocks far larger than any chunk a writer might split them into
			if len(pl.Ops) > 3 {
				pl.Ops = pl.Ops[:3]
			}
			if len(pl.Ops) == 0 {
				pl.Ops = []int{0}
			}
			pl.Ops[r.Intn(len(pl.Ops))] = r.PickInt([]int{1<<20 + 7, 2<<20 + 512*1024, 3 << 20})
		}
	} else {
		pl.API = "encoder"
		pl.Type = r.Pick(typeNames(func(d *TypeDesc) bool { return !d.RefOnly && !d.HasMultiMap }))
		pl.BlockSize = r.PickInt([]int{0, 1, 10, 50, 300, 1 << 20})
		n := r.Range(0, 14)
		vi := 0
		for i := 0; i < n; i++ {
			if r.P(1, 4) {
				pl.Ops = append(pl.Ops, -1)
			} else {
				pl.Ops = append(pl.Ops, vi)
				vi++
			}
		}
		if r.P(3, 4) {
			pl.Ops = append(pl.Ops, -1)
		}
	}
	if r.P(1, 4) {
		pl.ErrTemp = r.Pick([]string{"temporary", "timeout"})
	}
	return &Plan{Prop: "C16", Seed: seed, Idx: idx, Tier: tier, C16: pl}
}

type c16Call struct {
	Kind string // new | encode | flush | header | block
	Err  error
	// writes issued during the call: [W0, W1); destination flushes: [F0, F1)
	W0, W1 int
	F0, F1 int
}

// c16Run executes the history; it stops after the first call that returns an
// error. A panic is returned as such.
func c16Run(pl *C16Plan, w *DiskWriter) (calls []c16Call, panicked any, site string) {
	var dst io.Writer = w
	if pl.Flusher {
		dst = FlushWriter{w}
	}
	defer func() {
		if p := recover(); p != nil {
			panicked = p
			site = panicSite()
		}
	}()
	pinSync(pl.SyncSeed)
	rec := func(kind string, f func() error) bool {
		c := c16Call{Kind: kind, W0: w.Writes, F0: w.Flushes}
		c.Err = f()
		c.W1 = w.Writes
		c.F1 = w.Flushes
		calls = append(calls, c)
		return c.Err == nil
	}
	switch pl.API {
	case "encoder":
		d := typeByName(pl.Type)
		nvals := 0
		for _, op := range pl.Ops {
			if op >= 0 {
				nvals++
			}
		}
		vals := GenValues(d.Type, nvals, pl.VSeed, pl.VClass)
		var e EncHandle
		if !rec("new", func() (err error) {
			e, err = d.NewEnc(dst, avro.Compression(pl.Codec), pl.BlockSize)
			return err
		}) {
			return
		}
		for _, op := range pl.Ops {
			if op < 0 {
				if !rec("flush", e.Flush) {
					return
				}
			} else {
				v := vals[op]
				if !rec("encode", func() error { return e.Encode(v) }) {
					return
				}
			}
		}
	case "filewriter":
		r := NewRng(pl.VSeed, 0x16f)
		var fw *avro.FileWriter
		if !rec("newfw", func() (err error) {
			fw, err = avro.NewFileWriter([]byte(`{"type":"record","name":"x","fields":[]}`), avro.Compression(pl.Codec))
			return err
		}) {
			return
		}
		if !rec("header", func() error { return fw.WriteHeader(dst) }) {
			return
		}
		for _, op := range pl.Ops {
			blk := make([]byte, op)
			if op > 1<<16 {
				x := uint64(op)
				for i := range blk {
					if i%8 == 0 {
						x = splitmix(x)
					}
					blk[i] = byte(x >> (uint(i%8) * 8)) // incompressible: stays large after compression
				}
			} else {
				for i := range blk {
					blk[i] = byte(r.Intn(7)) // compressible
				}
			}
			if !rec("block", func() error { return fw.WriteBlock(dst, op%7, blk) }) {
				return
			}
		}
	}
	return
}

func writeRole(api string, k int) string {
	if k == 0 {
		return "header"
	}
	return []string{"count", "length", "payload", "sync"}[(k-1)%4]
}

func (c16Prop) Execute(p *Plan, run *Run) any {
	pl := p.C16
	base := &DiskWriter{}
	calls, pan, _ := c16Run(pl, base)
	run.Evals++
	if pan != nil {
		run.Probes.Inc("skipped:fault-free-history-panics")
		run.Log.Add("skip panic")
		return map[string]any{"skipped": fmt.Sprint(pan)}
	}
	for _, c := range calls {
		if c.Err != nil {
			run.Probes.Inc("skipped:fault-free-history-fails")
			run.Log.Add("skip err")
			return map[string]any{"skipped": c.Err.Error()}
		}
	}
	F := base.Buf
	W := base.Writes
	run.Log.Add("F=%d W=%d", len(F), W)

	faults := pl.Faults
	if faults == nil {
		for j := 0; j < base.Flushes; j++ {
			faults = append(faults, WFault{Kind: "flusherr", K: j})
		}
		for k := 0; k < W; k++ {
			faults = append(faults, WFault{Kind: "err", K: k}, WFault{Kind: "short", K: k, Short: 1}, WFault{Kind: "short", K: k, Short: base.Lens[k] / 2}, WFault{Kind: "short", K: k, Short: -1}, WFault{Kind: "fullerr", K: k})
		}
	}
	off := make([]int, W+1)
	for k := 0; k < W; k++ {
		off[k+1] = off[k] + base.Lens[k]
	}

	for _, f := range faults {
		f := f
		tick()
		if pl.PathErr {
			f.Flavour = "patherror"
		}
		if pl.ErrTemp != "" {
			f.Temp = pl.ErrTemp
		}
		if f.Kind == "flusherr" {
			// only code that chooses to flush its destination gets here
			w := &DiskWriter{Fault: &f}
			fc, pan, site := c16Run(pl, w)
			run.Evals++
			run.Log.Add("flush j=%d calls=%d fired=%v", f.K, len(fc), w.Fired)
			q := p.clone()
			q.C16.Faults = []WFault{f}
			if pan != nil {
				run.Violation("c16/panic", site, fmt.Sprintf("destination Flush #%d failed: panic: %v", f.K, pan), q)
				return nil
			}
			if !w.Fired {
				continue
			}
			run.Faults.Inc("W-flusherr")
			for _, c := range fc {
				if c.F0 <= f.K && f.K < c.F1 {
					if c.Err == nil || !errors.Is(c.Err, w.Injected) {
						run.Violation("c16/error-swallowed", c.Kind+"/flush", fmt.Sprintf("the %s call flushed its destination (a writer with a Flush method); that Flush failed with %q and the call returned %q", c.Kind, w.Injected, errString(c.Err)), q)
						return nil
					}
				}
			}
			continue
		}
		if f.K >= W {
			continue
		}
		narrow := func() *Plan {
			q := p.clone()
			q.C16.Faults = []WFault{f}
			return q
		}
		w := &DiskWriter{Fault: &f}
		fc, pan, site := c16Run(pl, w)
		run.Evals++
		variant := f.Kind
		if f.Kind == "short" {
			switch {
			case f.Short < 0:
				variant = "short(len-1)"
			case f.Short == 1:
				variant = "short(1)"
			default:
				variant = "short(len/2)"
			}
		}
		role := writeRole(pl.API, f.K)
		run.Log.Add("k=%d %s calls=%d fired=%v", f.K, variant, len(fc), w.Fired)
		desc := fmt.Sprintf("%s history, codec %s: write #%d of %d (%s, %d bytes) failed with %s", pl.API, pl.Codec, f.K, W, role, base.Lens[f.K], variant)
		if pan != nil {
			run.Violation("c16/panic", site, fmt.Sprintf("%s: panic: %v", desc, pan), narrow())
			return nil
		}
		if !w.Fired {
			run.Infra(fmt.Sprintf("%s: the faulted re-run issued only %d writes (fault-free run: %d) — executions are not comparable", desc, w.Writes, W))
			return nil
		}
		run.Faults.Inc("W-" + variant)
		// which call issued write k
		ci := -1
		for i, c := range fc {
			if c.W0 <= f.K && f.K < c.W1 {
				ci = i
			}
		}
		if ci < 0 {
			run.Infra(desc + ": cannot attribute the failed write to a call")
			return nil
		}
		kind := fc[ci].Kind
		if kind == "encode" {
			kind = "encode(size-triggered)"
		}
		run.Sig("%s|%s|%s|%s|%s|patherr:%v%s", pl.API, kind, role, variant, pl.Codec, pl.PathErr, pl.ErrTemp)
		for i := 0; i < ci; i++ {
			if fc[i].Err != nil {
				run.Infra(fmt.Sprintf("%s: call %d (%s) failed before the fault fired: %v", desc, i, fc[i].Kind, fc[i].Err))
				return nil
			}
		}
		err := fc[ci].Err
		if err == nil {
			run.Violation("c16/error-swallowed", fc[ci].Kind+"/"+role, fmt.Sprintf("%s, but the %s call that issued it returned nil", desc, fc[ci].Kind), narrow())
			return nil
		}
		if !errors.Is(err, w.Injected) || !errors.Is(err, ErrInjected) {
			run.Violation("c16/error-not-wrapped", fc[ci].Kind+"/"+role, fmt.Sprintf("%s; the %s call returned %q which does not wrap the writer's error", desc, fc[ci].Kind, err), narrow())
			return nil
		}
		wantLen := off[f.K] + w.FiredAccepted
		if wantLen > len(F) {
			// the failed write was longer than in the fault-free run
			run.Violation("c16/not-a-prefix", fc[ci].Kind+"/"+role, fmt.Sprintf("%s; the failing write carried %d bytes more than the same write in the fault-free run, so what the writer accepted (%d bytes) cannot be a prefix of the fault-free stream (%d bytes)", desc, wantLen-len(F), len(w.Buf), len(F)), narrow())
			return nil
		}
		want := F[:wantLen]
		if !bytes.Equal(w.Buf, want) {
			// seam check: if the header is complete in both and the markers differ, the pin was lost
			if f.K > 0 && len(w.Buf) >= base.Lens[0] && !bytes.Equal(w.Buf[base.Lens[0]-16:base.Lens[0]], F[base.Lens[0]-16:base.Lens[0]]) {
				run.Infra(desc + ": sync markers of the paired runs differ (crypto/rand seam lost)")
				return nil
			}
			d := 0
			for d < len(w.Buf) && d < len(want) && w.Buf[d] == want[d] {
				d++
			}
			run.Violation("c16/not-a-prefix", fc[ci].Kind+"/"+role, fmt.Sprintf("%s; the writer had accepted %d bytes, which are not the first %d bytes of the fault-free stream (first difference at byte %d, expected length %d)", desc, len(w.Buf), len(w.Buf), d, len(want)), narrow())
			return nil
		}
	}
	kinds := []string{}
	for _, c := range calls {
		kinds = append(kinds, c.Kind)
	}
	return map[string]any{"calls": kinds, "stream_len": len(F), "writes": W, "faulted_reruns": len(faults)}
}

func (c16Prop) Shrink(p *Plan) []*Plan {
	var out []*Plan
	mut := func(f func(q *C16Plan)) {
		q := p.clone()
		q.C16.Faults = nil
		f(q.C16)
		out = append(out, q)
	}
	pl := p.C16
	if len(pl.Ops) > 0 {
		mut(func(q *C16Plan) { q.Ops = nil })
		mut(func(q *C16Plan) { q.Ops = q.Ops[:len(q.Ops)/2] })
		for i := range pl.Ops {
			i := i
			mut(func(q *C16Plan) { q.Ops = c16DropOp(q.Ops, i) })
		}
	}
	if pl.Codec != "null" {
		mut(func(q *C16Plan) { q.Codec = "null" })
	}
	if pl.VClass > 0 {
		mut(func(q *C16Plan) { q.VClass = 0 })
	}
	if pl.API == "encoder" && pl.Type != "One" {
		mut(func(q *C16Plan) { q.Type = "One" })
	}
	if pl.API == "encoder" && pl.BlockSize != 1<<20 {
		mut(func(q *C16Plan) { q.BlockSize = 1 << 20 })
	}
	return out
}

func c16DropOp(ops []int, i int) []int {
	out := append([]int{}, ops[:i]...)
	removed := ops[i]
	for _, o := range ops[i+1:] {
		if removed >= 0 && o > removed {
			o--
		}
		out = append(out, o)
	}
	return out
}

var _ = reflect.TypeOf
