package main

import (
	"bytes"
	"fmt"
	"reflect"

	"github.com/philpearl/avro"

	"verif/sim/ref"
)

// C09 — encoder output is an exact, gap-free sequence of blocks for any call
// history. The history is executed against a fault-free SimDisk and the bytes
// the disk holds are inspected after EVERY call.

type C09Op struct {
	Flush bool `json:"flush,omitempty"`
	Pad   int  `json:"pad,omitempty"` // Padded type: length of the Pad field
}

type C09Plan struct {
	Type      string  `json:"type"`
	Codec     string  `json:"codec"`
	BlockSize int     `json:"block_size"`
	VSeed     uint64  `json:"vseed"`
	VClass    int     `json:"vclass"`
	Ops       []C09Op `json:"ops"`
	SyncSeed  uint64  `json:"sync_seed"`
	// Disturb: a second encoder of the same type lives in the process, on a
	// writer of its own that fails at some write, and is used (also after its
	// failure) in between the calls of the encoder under observation. The
	// property is stated per encoder: what another encoder goes through must
	// not show in this one's output.
	Disturb *C09Disturb `json:"disturb,omitempty"`
}

type C09Disturb struct {
	First     bool   `json:"first,omitempty"` // created before the observed encoder
	FailAt    int    `json:"fail_at"`         // write index at which its writer fails (-1: never)
	Kind      string `json:"kind"`            // err | short | fullerr
	BlockSize int    `json:"block_size"`
	// Before[i mod len]: calls made on it before the observed encoder's i-th
	// call: 0 none, 1 Encode, 2 Flush, 3 Encode then Flush
	Before []int `json:"before"`
}

type c09Prop struct{}

func init() { register(c09Prop{}) }

func (c09Prop) ID() string    { return "C09" }
func (c09Prop) Level() string { return "exploration" }
func (c09Prop) Race() bool    { return false }

func (c09Prop) Count(tier string) int {
	if tier == "thorough" {
		return 1000000
	}
	return 20000
}

func (c09Prop) Rule() string {
	return "plan = seeded call history over {Encode(record of chosen encoded size), Flush} (length 1..200), record type (zero-width, one-byte, ID+padding with unique IDs, nested, one-entry map), codec, block size from {0,1,2, near a record size +-1, exact sum of k records, huge}. " +
		"One execution = one API call followed by a full inspection of the bytes on SimDisk against the framing model. Non-trivial = a call with records pending or emitting a block. " +
		"distinct_nontrivial counts distinct (op, pending-count bucket, pending bytes vs block size, emitted?, codec, record width class) signatures."
}

func (c09Prop) Assumptions() []string {
	return []string{
		"per-record expected encodings come from the library's own codec (SchemaForType -> Schema.Codec -> Codec.Write): the property is about framing relative to 'the encodings', so what a value encodes to is not judged here",
		"independent decompressors (compress/flate, snappy+CRC32 called directly) recover each block's payload",
		"a block emitted by Encode (not by Flush) must hold at least the configured block size of encodings (NewEncoderFor documents 'blocks of at least approxBlockSize bytes'); a block emitted by Flush may be of any size",
	}
}

func (c09Prop) Generate(seed uint64, idx int, tier string) *Plan {
	r := NewRng(seed, uint64(idx)<<8|0x09)
	pl := &C09Plan{Codec: r.Pick(codecNames), VSeed: r.Uint64(), VClass: r.PickInt([]int{0, 1, 2}), SyncSeed: r.Uint64()}
	pl.Type = r.Pick([]string{"Empty", "One", "Padded", "Padded", "Padded", "Nested", "OneMap", "Flat"})
	n := r.Range(1, 40)
	if r.P(1, 6) {
		n = r.Range(40, 200)
	}
	pads := []int{0, 0, 1, 2, 5, 17, 60, 127, 128, 300, 4096}
	flushP := r.PickInt([]int{0, 1, 3, 8})
	huge := r.P(1, 8)
	sizes := []int{}
	for i := 0; i < n; i++ {
		if r.P(flushP, 12) {
			pl.Ops = append(pl.Ops, C09Op{Flush: true})
			if r.P(1, 4) {
				pl.Ops = append(pl.Ops, C09Op{Flush: true})
			}
			continue
		}
		pad := r.PickInt(pads)
		if huge && r.P(1, 12) {
			// records far larger than any internal buffer or retention threshold
			pad = r.PickInt([]int{70000, 1<<20 + 5, 3 << 20})
		}
		pl.Ops = append(pl.Ops, C09Op{Pad: pad})
		sizes = append(sizes, pad+3)
	}
	if r.P(2, 3) {
		pl.Ops = append(pl.Ops, C09Op{Flush: true})
	}
	if r.P(1, 7) {
		// Boundary mode: blocks whose record count or byte length sits exactly
		// at, just below or just above a varint length boundary (64, 8192) or
		// a power of two the framing code might special-case.
		pl.Ops = nil
		pl.Type = r.Pick([]string{"One", "Padded", "Padded"})
		pl.BlockSize = 1 << 24
		for g := r.Range(1, 3); g > 0; g-- {
			if pl.Type == "One" || r.P(1, 2) {
				k := r.PickInt([]int{63, 64, 65, 127, 128, 129, 255, 256, 8191, 8192, 8193, 16383, 16384, 32767, 32768, 65535, 65536, 65537})
				if pl.Type != "One" && k > 300 {
					k = 64
				}
				for i := 0; i < k; i++ {
					pl.Ops = append(pl.Ops, C09Op{Pad: 0})
				}
			} else {
				// one record whose encoding has exactly L bytes: ID varint (1 byte for small IDs) + length varint + pad
				L := r.PickInt([]int{63, 64, 65, 127, 128, 129, 8191, 8192, 8193, 16383, 16384, 16385, 32767, 32768, 65535, 65536, 65537, 1<<20 - 1, 1 << 20, 1<<20 + 1})
				pad := L - 2
				if pad >= 64 {
					pad--
				}
				if pad >= 8192 {
					pad--
				}
				if pad >= 1<<20 {
					pad--
				}
				pl.Ops = append(pl.Ops, C09Op{Pad: pad})
			}
			pl.Ops = append(pl.Ops, C09Op{Flush: true})
		}
		return &Plan{Prop: "C09", Seed: seed, Idx: idx, Tier: tier, C09: pl}
	}
	// block size: edge values, or near a (sum of) record size(s)
	switch r.Intn(6) {
	case 0:
		pl.BlockSize = r.PickInt([]int{0, 1, 2})
	case 1:
		pl.BlockSize = 1 << 20
	case 2, 3:
		if len(sizes) > 0 {
			k := r.Range(1, min(4, len(sizes)))
			s := 0
			for i := 0; i < k; i++ {
				s += sizes[r.Intn(len(sizes))]
			}
			pl.BlockSize = max(0, s+r.Range(-1, 1))
		}
	default:
		pl.BlockSize = r.PickInt([]int{3, 10, 64, 500, 5000})
	}
	if r.P(1, 6) {
		dz := &C09Disturb{First: r.P(1, 2), FailAt: r.Range(-1, 10), Kind: r.Pick([]string{"err", "err", "short", "fullerr"}), BlockSize: r.PickInt([]int{0, 1, 10, 64, pl.BlockSize, 1 << 20})}
		for i := r.Range(1, 8); i > 0; i-- {
			dz.Before = append(dz.Before, r.PickInt([]int{0, 1, 1, 2, 3}))
		}
		pl.Disturb = dz
	}
	return &Plan{Prop: "C09", Seed: seed, Idx: idx, Tier: tier, C09: pl}
}

// ownEncoding returns the library's own encoding of one value.
func ownEncoding(codec avro.Codec, v reflect.Value) []byte {
	wb := avro.NewWriteBuf(nil)
	codec.Write(wb, v.Addr().UnsafePointer())
	return append([]byte{}, wb.Bytes()...)
}

func bucket(n int) string {
	switch {
	case n == 0:
		return "0"
	case n == 1:
		return "1"
	case n <= 5:
		return "2-5"
	}
	return ">5"
}

func (c09Prop) Execute(p *Plan, run *Run) any {
	pl := p.C09
	d := typeByName(pl.Type)
	zero := reflect.New(d.Type).Elem().Interface()
	schema, err := avro.SchemaForType(zero)
	if err != nil {
		run.Probes.Inc("skipped:no-schema")
		return nil
	}
	codec, err := schema.Codec(zero)
	if err != nil {
		run.Probes.Inc("skipped:no-codec")
		return nil
	}
	nenc := 0
	for _, op := range pl.Ops {
		if !op.Flush {
			nenc++
		}
	}
	vals := GenValues(d.Type, nenc, pl.VSeed, pl.VClass)
	if pl.Type == "Padded" {
		vi := 0
		for _, op := range pl.Ops {
			if op.Flush {
				continue
			}
			pad := make([]byte, op.Pad)
			for i := range pad {
				pad[i] = byte(vi*31 + i)
			}
			vals[vi].Set(reflect.ValueOf(Padded{ID: int64(vi) + 1, Pad: pad}))
			vi++
		}
	}
	width := "wide"
	switch pl.Type {
	case "Empty":
		width = "zero"
	case "One":
		width = "one"
	}

	w := &DiskWriter{}
	pinSync(pl.SyncSeed)
	var e EncHandle
	var hdr *ref.Container
	parsed := 0 // bytes already accounted for (header + complete blocks)
	var allEnc [][]byte
	inBlocks := 0 // records seen in emitted blocks
	pendingBytes := 0
	blocks := 0
	lastBlockBytes, lastBlockCount := 0, 0

	fail := func(class, site, msg string, at int) {
		q := p.clone()
		q.C09.Ops = q.C09.Ops[:at+1]
		run.Violation(class, site, msg, q)
	}

	// inspect parses everything after 'parsed' as complete blocks and checks them.
	inspect := func(opi int, what string) (emitted int, ok bool) {
		buf := w.Buf
		if hdr == nil {
			return 0, true // nothing on disk yet
		}
		for parsed < len(buf) {
			dec := &ref.Dec{Buf: buf, Pos: parsed}
			count, err1 := decLong(dec)
			size, err2 := decLong(dec)
			if err1 != nil || err2 != nil || size < 0 || dec.Pos+int(size)+16 > len(buf) {
				fail("c09/partial-block", what, fmt.Sprintf("after op %d (%s): %d trailing bytes on disk do not form a complete block (count=%d size=%d)", opi, what, len(buf)-parsed, count, size), opi)
				return emitted, false
			}
			stored := buf[dec.Pos : dec.Pos+int(size)]
			sync := buf[dec.Pos+int(size) : dec.Pos+int(size)+16]
			if !bytes.Equal(sync, hdr.Sync[:]) {
				fail("c09/sync", what, fmt.Sprintf("after op %d (%s): block %d is not followed by the header's sync marker (declared byte length %d)", opi, what, blocks, size), opi)
				return emitted, false
			}
			if count < 1 {
				fail("c09/empty-block", what, fmt.Sprintf("after op %d (%s): block %d declares %d records", opi, what, blocks, count), opi)
				return emitted, false
			}
			payload, err := ref.Decompress(pl.Codec, stored)
			if err != nil {
				fail("c09/payload-undecodable", what, fmt.Sprintf("after op %d (%s): block %d payload rejected by the independent %s decompressor: %v", opi, what, blocks, pl.Codec, err), opi)
				return emitted, false
			}
			if inBlocks+int(count) > len(allEnc) {
				fail("c09/count", what, fmt.Sprintf("after op %d (%s): block %d declares %d records but only %d were encoded and not yet emitted", opi, what, blocks, count, len(allEnc)-inBlocks), opi)
				return emitted, false
			}
			var want []byte
			for _, enc := range allEnc[inBlocks : inBlocks+int(count)] {
				want = append(want, enc...)
			}
			if !bytes.Equal(payload, want) {
				fail("c09/payload", what, fmt.Sprintf("after op %d (%s): block %d (count %d) payload is %d bytes and differs from the concatenated encodings of records %d..%d (%d bytes)", opi, what, blocks, count, len(payload), inBlocks, inBlocks+int(count)-1, len(want)), opi)
				return emitted, false
			}
			inBlocks += int(count)
			lastBlockBytes, lastBlockCount = len(payload), int(count)
			blocks++
			emitted++
			parsed = dec.Pos + int(size) + 16
		}
		return emitted, true
	}

	lib := func(f func() error) (err error, pan any, site string) {
		defer func() {
			if r := recover(); r != nil {
				pan, site = r, panicSite()
			}
		}()
		return f(), nil, ""
	}

	var dist EncHandle
	var dw *DiskWriter
	var dvals []reflect.Value
	dvi := 0
	mkDisturber := func() {
		dz := pl.Disturb
		dw = &DiskWriter{}
		if dz.FailAt >= 0 {
			dw.Fault = &WFault{Kind: dz.Kind, K: dz.FailAt, Short: 1}
		}
		dvals = GenValues(d.Type, 32, pl.VSeed^0xd157, 1)
		lib(func() (err error) {
			dist, err = d.NewEnc(dw, avro.Compression(pl.Codec), dz.BlockSize)
			return err
		})
	}
	disturb := func(opi int) {
		dz := pl.Disturb
		if dz == nil || dist == nil || len(dz.Before) == 0 {
			return
		}
		k := dz.Before[opi%len(dz.Before)]
		if k&1 != 0 {
			v := dvals[dvi%len(dvals)]
			dvi++
			// errors (and whatever else the failed encoder does) are its own affair
			lib(func() error { return dist.Encode(v) })
			run.Faults.Inc("disturber-encode")
		}
		if k&2 != 0 {
			lib(dist.Flush)
			run.Faults.Inc("disturber-flush")
		}
		if dw.Fired {
			run.Probes.Inc("disturber-used-after-its-write-failed")
		}
	}
	if pl.Disturb != nil && pl.Disturb.First {
		mkDisturber()
	}
	err, pan, site := lib(func() (err error) {
		e, err = d.NewEnc(w, avro.Compression(pl.Codec), pl.BlockSize)
		return err
	})
	if pl.Disturb != nil && !pl.Disturb.First {
		mkDisturber()
	}
	run.Evals++
	if pan != nil || err != nil {
		run.Probes.Inc("skipped:encoder-construction-failed")
		_ = site
		return nil
	}
	// The header may be written by NewEncoderFor (as the pinned code does) or
	// later, but before the first block: the property speaks only of "the
	// bytes emitted after the header".
	var hdrBytes []byte
	takeHeader := func() bool {
		if hdr != nil || len(w.Buf) == 0 {
			return true
		}
		h, err := ref.ParseHeader(w.Buf)
		if err != nil {
			run.Violation("c09/header", "header", fmt.Sprintf("the first %d bytes on disk do not start with a complete header: %v", len(w.Buf), err), nil)
			return false
		}
		if c := h.Codec(); c != pl.Codec {
			run.Violation("c09/header", "header", fmt.Sprintf("header declares codec %q, encoder was created with %q", c, pl.Codec), nil)
			return false
		}
		hdr = h
		hdrBytes = append([]byte{}, w.Buf[:h.HdrEnd]...)
		parsed = h.HdrEnd
		return true
	}
	if !takeHeader() {
		return nil
	}

	vi := 0
	for opi, op := range pl.Ops {
		disturb(opi)
		before := len(w.Buf)
		tick()
		pendBefore := len(allEnc) - inBlocks
		var what string
		if op.Flush {
			what = "flush"
			err, pan, site = lib(e.Flush)
		} else {
			what = "encode"
			v := vals[vi]
			vi++
			enc := ownEncoding(codec, v)
			allEnc = append(allEnc, enc)
			pendingBytes += len(enc)
			err, pan, site = lib(func() error { return e.Encode(v) })
		}
		run.Evals++
		if pan != nil {
			fail("c09/panic", site, fmt.Sprintf("op %d (%s) panicked: %v", opi, what, pan), opi)
			return nil
		}
		if err != nil {
			fail("c09/error", what, fmt.Sprintf("op %d (%s) failed on a fault-free disk: %v", opi, what, err), opi)
			return nil
		}
		if !takeHeader() {
			return nil
		}
		if len(w.Buf) < before || (hdr != nil && !bytes.Equal(w.Buf[:len(hdrBytes)], hdrBytes)) {
			fail("c09/header", what, fmt.Sprintf("op %d (%s): earlier bytes on disk changed", opi, what), opi)
			return nil
		}
		emitted, ok := inspect(opi, what)
		if !ok {
			return nil
		}
		pending := len(allEnc) - inBlocks
		if emitted > 0 {
			pendingBytes = 0
			for _, enc := range allEnc[inBlocks:] {
				pendingBytes += len(enc)
			}
		}
		rel := "<"
		switch {
		case pendingBytes == pl.BlockSize:
			rel = "="
		case pendingBytes > pl.BlockSize:
			rel = ">"
		}
		run.Log.Add("op %d %s pend=%d bytes=%d emitted=%d disk=%d", opi, what, pending, pendingBytes, emitted, len(w.Buf))
		if pendBefore > 0 || emitted > 0 || pending > 0 {
			run.Sig("%s|pend:%s|%s|emit:%v|%s|%s", what, bucket(pendBefore), rel, emitted > 0, pl.Codec, width)
		}
		if op.Flush {
			if pending != 0 {
				fail("c09/flush-leaves-pending", what, fmt.Sprintf("op %d: Flush returned with %d records still buffered", opi, pending), opi)
				return nil
			}
			if pendBefore == 0 {
				run.Probes.Inc("flush-with-nothing-pending")
				// (a header written lazily at this point is fine; any block is not)
				if emitted > 0 {
					fail("c09/empty-flush-wrote", what, fmt.Sprintf("op %d: Flush with nothing pending emitted %d block(s)", opi, emitted), opi)
					return nil
				}
			}
		} else {
			if pending > 0 && pendingBytes >= pl.BlockSize {
				fail("c09/block-size-not-honoured", what, fmt.Sprintf("op %d: after Encode %d records (%d bytes) remain buffered although the block size is %d", opi, pending, pendingBytes, pl.BlockSize), opi)
				return nil
			}
			if emitted > 0 {
				run.Probes.Inc("size-triggered-flush")
				// NewEncoderFor documents "blocks of at least approxBlockSize
				// bytes. A block is written when it reaches that size, or when
				// Flush is called": a block emitted by Encode before the
				// buffered encodings reached the block size follows neither
				// trigger the property names.
				if lastBlockBytes < pl.BlockSize {
					fail("c09/early-block", what, fmt.Sprintf("op %d: Encode emitted a block of %d records and %d payload bytes although the block size is %d and Flush was not called", opi, lastBlockCount, lastBlockBytes, pl.BlockSize), opi)
					return nil
				}
			}
			if width == "zero" && emitted > 0 {
				run.Probes.Inc("zero-width-records-in-block")
			}
		}
		if pl.BlockSize == 0 {
			run.Probes.Inc("block-size-0")
		}
		// conservation
		if inBlocks+pending != len(allEnc) {
			fail("c09/conservation", what, "records in blocks + pending != encodes", opi)
			return nil
		}
	}
	return map[string]any{"ops": len(pl.Ops), "blocks": blocks, "records": len(allEnc), "left_pending": len(allEnc) - inBlocks, "disk_bytes": len(w.Buf)}
}

func decLong(d *ref.Dec) (int64, error) {
	v, err := d.Decode(ref.Prim("long"))
	if err != nil {
		return 0, err
	}
	return v.(int64), nil
}

func (c09Prop) Shrink(p *Plan) []*Plan {
	var out []*Plan
	mut := func(f func(q *C09Plan)) {
		q := p.clone()
		f(q.C09)
		out = append(out, q)
	}
	pl := p.C09
	n := len(pl.Ops)
	if n > 1 {
		mut(func(q *C09Plan) { q.Ops = q.Ops[n/2:] })
		for i := 0; i < n && i < 60; i++ {
			i := i
			mut(func(q *C09Plan) { q.Ops = append(append([]C09Op{}, q.Ops[:i]...), q.Ops[i+1:]...) })
		}
	}
	for i, op := range pl.Ops {
		if op.Pad > 0 {
			i := i
			mut(func(q *C09Plan) { q.Ops[i].Pad = 0 })
		}
	}
	if pl.Disturb != nil {
		mut(func(q *C09Plan) { q.Disturb = nil })
		if pl.Disturb.FailAt >= 0 {
			mut(func(q *C09Plan) { q.Disturb.FailAt = -1 })
		}
		if len(pl.Disturb.Before) > 1 {
			mut(func(q *C09Plan) { q.Disturb.Before = q.Disturb.Before[:1] })
		}
	}
	if pl.Codec != "null" {
		mut(func(q *C09Plan) { q.Codec = "null" })
	}
	if pl.VClass > 0 {
		mut(func(q *C09Plan) { q.VClass = 0 })
	}
	if pl.Type != "One" {
		mut(func(q *C09Plan) { q.Type = "One" })
	}
	return out
}
