package main

import (
	"fmt"

	"verif/sim/ref"
)

// C08 — a truncated file yields a prefix of its records and an error.
//
// Simulated scenario: a writer process streams a container file to SimDisk and
// dies at byte b (only bytes < b survive); a reader then opens what is left.
// Every b of every generated file is tried (files up to c08AllCutsMax bytes;
// longer ones: every structural boundary ±1 plus a pre-drawn sample).

type C08Plan struct {
	File      FileSpec  `json:"file"`
	Chunks    ChunkSpec `json:"chunks"`
	Cuts      []int     `json:"cuts,omitempty"`       // explicit cut positions; nil = enumerate
	CutSample []uint32  `json:"cut_sample,omitempty"` // raw draws, mapped modulo len+1 for long files
}

const c08AllCutsMax = 3000

type c08Prop struct{}

func init() { register(c08Prop{}) }

func (c08Prop) ID() string    { return "C08" }
func (c08Prop) Level() string { return "fault_enumeration" }
func (c08Prop) Race() bool    { return false }

func (c08Prop) Count(tier string) int {
	if tier == "thorough" {
		return 20000
	}
	return 260
}

func (c08Prop) Rule() string {
	return "plan = (valid container file written by the real Encoder or by the reference writer: curated type, seeded values, codec, block size/flush pattern or block partition; reader chunking). " +
		"For every plan ALL cut positions 0..len are executed (files <= 3000 bytes; longer files: every structural boundary +-1 plus a pre-drawn sample of 300); one execution = one ReadFile of one prefix. " +
		"A case is non-trivial when 0 < cut < len. distinct_nontrivial counts distinct signatures (codec, writer, structural class of the cut position, block position first/middle/last, reader chunking class)."
}

func (c08Prop) Assumptions() []string {
	return []string{
		"a crash of the writing process at byte b leaves exactly bytes [0,b) (append-only stream; no reordering of earlier bytes): the prefix model the property states",
		"the reference container parser (sim/ref) locates header and block boundaries correctly; it is run on the intact file only",
		"delivered records are compared with the fault-free read of the same file, so what the decoder makes of a value is not judged here",
		"curated record types only (DESIGN §5)",
	}
}

func (c08Prop) Generate(seed uint64, idx int, tier string) *Plan {
	r := NewRng(seed, uint64(idx)<<8|0x08)
	types := typeNames(nil)
	maxN := 24
	if r.P(1, 5) {
		maxN = 60
	}
	fs := genFileSpec(r, types, true, maxN)
	// keep most files small enough for all-cuts enumeration
	if fs.VClass == 3 && r.P(3, 4) {
		fs.VClass = 1
	}
	// Some files need blocks of >= 64 records, so that the block count varint
	// has more than one byte and a cut can fall inside it.
	if r.P(1, 6) {
		fs = FileSpec{Type: r.Pick([]string{"One", "Empty", "Flat", "OneMap"}), N: r.Range(64, 300), VSeed: r.Uint64(), VClass: 0,
			Codec: r.Pick(codecNames), Writer: "enc", BlockSize: r.PickInt([]int{1 << 20, 1 << 20, 2000}), SyncSeed: r.Uint64()}
		if r.P(1, 3) {
			fs.Writer = "ref"
			fs.BlockSize = 0
			k := r.Range(64, fs.N)
			fs.Parts = []int{k}
			if fs.N-k > 0 {
				fs.Parts = append(fs.Parts, fs.N-k)
			}
		}
	}
	if r.P(1, 20) {
		fs = genBigFileSpec(r) // cuts are sampled for files this long
	}
	pl := &C08Plan{File: fs, Chunks: genChunks(r)}
	for i := 0; i < 300; i++ {
		pl.CutSample = append(pl.CutSample, r.Uint32())
	}
	return &Plan{Prop: "C08", Seed: seed, Idx: idx, Tier: tier, C08: pl}
}

// cutClass names the structural position of cut b.
func cutClass(c *ref.Container, b int) (class string, blockPos string) {
	blockPos = "-"
	switch {
	case b < 4:
		return "magic", blockPos
	case b == c.HdrEnd:
		return "hdrEnd", blockPos
	case b < c.HdrEnd:
		if b >= c.SyncOff {
			if b == c.SyncOff {
				return "hdr-sync-first", blockPos
			}
			return "hdr-sync", blockPos
		}
		if b >= c.MetaEndAt {
			return "meta-end", blockPos
		}
		for _, m := range c.Meta {
			if b >= m.KeyLenOff && b < m.End {
				switch {
				case b < m.KeyOff:
					return "meta-key-len", blockPos
				case b < m.ValLenOff:
					return "meta-key", blockPos
				case b < m.ValOff:
					return "meta-val-len", blockPos
				default:
					return "meta-val", blockPos
				}
			}
		}
		return "meta-count", blockPos
	}
	for j, bl := range c.Blocks {
		if b > bl.End || b < bl.Start {
			continue
		}
		if b == bl.End {
			blockPos = posClass(j, len(c.Blocks))
			return "blockEnd", blockPos
		}
		blockPos = posClass(j, len(c.Blocks))
		switch {
		case b == bl.Start && j > 0:
			// == previous block's End; handled above for j-1, unreachable
			return "blockEnd", blockPos
		case b < bl.SizeOff:
			if b > bl.Start {
				return "block-count-mid-varint", blockPos
			}
			return "block-count", blockPos
		case b < bl.PayloadOff:
			if b > bl.SizeOff {
				return "block-len-mid-varint", blockPos
			}
			return "block-len", blockPos
		case b == bl.PayloadEnd:
			if bl.PayloadOff == bl.PayloadEnd {
				return "payloadEnd-empty", blockPos
			}
			return "payloadEnd", blockPos
		case b < bl.PayloadEnd:
			if b == bl.PayloadOff {
				return "payload-first", blockPos
			}
			if b == bl.PayloadEnd-1 {
				return "payload-last", blockPos
			}
			return "payload-mid", blockPos
		case b == bl.PayloadEnd+1:
			return "sync-first", blockPos
		case b == bl.End-1:
			return "sync-last", blockPos
		default:
			return "sync-mid", blockPos
		}
	}
	return "past-end", blockPos
}

func posClass(j, n int) string {
	switch {
	case j == 0:
		return "first"
	case j == n-1:
		return "last"
	}
	return "middle"
}

func (c08Prop) Execute(p *Plan, run *Run) any {
	pl := p.C08
	bf, err := BuildFile(pl.File)
	if err != nil {
		run.Probes.Inc("skipped:workload-unbuildable")
		run.Log.Add("skip build")
		return map[string]any{"skipped": err.Error()}
	}
	c, err := ref.ParseContainer(bf.Bytes)
	if err != nil {
		run.Probes.Inc("skipped:writer-output-unparseable")
		run.Log.Add("skip parse")
		return map[string]any{"skipped": err.Error()}
	}
	data := bf.Bytes
	target := targetFor(bf.Desc.Type, pl.Chunks.Project)
	run.Probes.Inc("type:" + pl.File.Type + "/" + pl.File.Writer)

	narrow := func(b int) *Plan {
		q := p.clone()
		q.C08.Cuts = []int{b}
		q.C08.CutSample = nil
		return q
	}

	// Fault-free read of the full file: the reference delivery D.
	full := readAllOut(target, pl.Chunks.OutPtr, openReader(data, pl.Chunks), -1, nil)
	run.Evals++
	var total int64
	for _, bl := range c.Blocks {
		total += bl.Count
	}
	run.Log.Add("full n=%d err=%v panic=%v", len(full.Delivered), full.Err != nil, full.Panic != nil)
	if full.Panic != nil {
		run.Violation("c08/panic", full.PanicSite, fmt.Sprintf("reading the complete file (cut = len = %d) panicked: %v", len(data), full.Panic), narrow(len(data)))
		return nil
	}
	if full.Err != nil {
		run.Violation("c08/error-at-clean-end", "cut=len", fmt.Sprintf("the complete file (a prefix ending exactly at the end of a block/header) was refused: %v", full.Err), narrow(len(data)))
		return nil
	}
	if int64(len(full.Delivered)) != total {
		run.Violation("c08/count", "cut=len", fmt.Sprintf("complete file: blocks declare %d records, %d delivered", total, len(full.Delivered)), narrow(len(data)))
		return nil
	}
	D := full.Delivered

	// Which cuts.
	var cuts []int
	switch {
	case pl.Cuts != nil:
		cuts = pl.Cuts
	case len(data) <= c08AllCutsMax:
		cuts = make([]int, len(data)+1)
		for i := range cuts {
			cuts[i] = i
		}
	default:
		seen := map[int]bool{}
		add := func(b int) {
			for _, x := range []int{b - 1, b, b + 1} {
				if x >= 0 && x <= len(data) && !seen[x] {
					seen[x] = true
					cuts = append(cuts, x)
				}
			}
		}
		add(0)
		add(4)
		add(c.MetaEndAt)
		add(c.SyncOff)
		add(c.HdrEnd)
		for _, m := range c.Meta {
			add(m.KeyOff)
			add(m.ValLenOff)
			add(m.ValOff)
			add(m.End)
		}
		for _, bl := range c.Blocks {
			add(bl.Start)
			add(bl.SizeOff)
			add(bl.PayloadOff)
			add(bl.PayloadEnd)
			add(bl.End)
		}
		for _, s := range pl.CutSample {
			x := int(s % uint32(len(data)+1))
			if !seen[x] {
				seen[x] = true
				cuts = append(cuts, x)
			}
		}
		run.Probes.Inc("long-file-sampled-cuts")
	}

	clean := map[int]bool{c.HdrEnd: true}
	for _, bl := range c.Blocks {
		clean[bl.End] = true
	}

	for _, b := range cuts {
		if b < 0 || b > len(data) {
			continue
		}
		tick()
		out := readAllOut(target, pl.Chunks.OutPtr, openReader(data[:b], pl.Chunks), -1, nil)
		run.Evals++
		run.Faults.Inc("W-crash(b)")
		var want int64
		for _, bl := range c.Blocks {
			if bl.PayloadEnd <= b {
				want += bl.Count
			}
		}
		cls, bpos := cutClass(c, b)
		run.Log.Add("cut %d n=%d err=%v", b, len(out.Delivered), out.Err != nil)
		if b > 0 && b < len(data) {
			run.Sig("%s|%s|%s|%s|%s|proj%d", pl.File.Codec, pl.File.Writer, cls, bpos, pl.Chunks.class(), pl.Chunks.Project)
		}
		if out.Panic != nil {
			run.Violation("c08/panic", out.PanicSite, fmt.Sprintf("cut %d of %d (%s): panic: %v", b, len(data), cls, out.Panic), narrow(b))
			return nil
		}
		if int64(len(out.Delivered)) != want {
			run.Violation("c08/count", cls, fmt.Sprintf("cut %d of %d (%s): blocks with complete payload hold %d records, %d delivered (err=%v)", b, len(data), cls, want, len(out.Delivered), out.Err), narrow(b))
			return nil
		}
		for i, v := range out.Delivered {
			if ok, where := EqualNorm(D[i], v); !ok {
				run.Violation("c08/record-differs", cls, fmt.Sprintf("cut %d of %d (%s): record %d differs from the same record of the intact file at %s", b, len(data), cls, i, where), narrow(b))
				return nil
			}
		}
		if clean[b] && out.Err != nil {
			run.Violation("c08/error-at-clean-end", cls, fmt.Sprintf("cut %d of %d ends exactly at %s but reading failed: %v", b, len(data), cls, out.Err), narrow(b))
			return nil
		}
		if !clean[b] && out.Err == nil {
			run.Violation("c08/no-error", cls, fmt.Sprintf("cut %d of %d (%s) is not at the end of the header or of a block, yet reading reported success (%d records delivered)", b, len(data), cls, len(out.Delivered)), narrow(b))
			return nil
		}
		if out.Err != nil {
			run.Probes.Inc("err:" + normMsg(out.Err.Error()))
		}
	}
	return map[string]any{"file_len": len(data), "blocks": len(c.Blocks), "records": len(D), "cuts_executed": len(cuts), "hdr_end": c.HdrEnd}
}

func (c08Prop) Shrink(p *Plan) []*Plan {
	var out []*Plan
	mut := func(f func(q *C08Plan)) {
		q := p.clone()
		q.C08.Cuts = nil
		f(q.C08)
		out = append(out, q)
	}
	fs := p.C08.File
	for _, n := range shrinkInts(fs.N) {
		mut(func(q *C08Plan) { q.File = shrinkFileN(q.File, n) })
	}
	if fs.VClass > 0 {
		mut(func(q *C08Plan) { q.File.VClass = 0 })
		mut(func(q *C08Plan) { q.File.VClass-- })
	}
	if fs.Codec != "null" {
		mut(func(q *C08Plan) { q.File.Codec = "null" })
	}
	if len(fs.Flush) > 0 {
		mut(func(q *C08Plan) { q.File.Flush = nil })
	}
	if fs.Writer == "enc" && fs.BlockSize != 1<<20 {
		mut(func(q *C08Plan) { q.File.BlockSize = 1 << 20 })
	}
	if fs.SplitMode != 0 {
		mut(func(q *C08Plan) { q.File.SplitMode = 0 })
	}
	if fs.NullSecond {
		mut(func(q *C08Plan) { q.File.NullSecond = false })
	}
	if len(fs.Parts) > 1 {
		mut(func(q *C08Plan) { q.File.Parts = []int{q.File.N} })
	}
	if fs.Type != "One" && fs.Writer == "enc" {
		mut(func(q *C08Plan) { q.File.Type = "One" })
		mut(func(q *C08Plan) { q.File.Type = "Flat" })
	}
	if !(len(p.C08.Chunks.Sizes) == 1 && p.C08.Chunks.Sizes[0] == 1<<20) || p.C08.Chunks.EOFWith || p.C08.Chunks.ZeroAt != 0 {
		mut(func(q *C08Plan) { q.Chunks = ChunkSpec{Sizes: []int{1 << 20}} })
	}
	return out
}

func shrinkInts(n int) []int {
	var out []int
	for _, c := range []int{0, 1, 2, n / 2, n - 1} {
		if c >= 0 && c < n {
			dup := false
			for _, o := range out {
				if o == c {
					dup = true
				}
			}
			if !dup {
				out = append(out, c)
			}
		}
	}
	return out
}

// shrinkFileN reduces the number of records, keeping the spec consistent.
func shrinkFileN(fs FileSpec, n int) FileSpec {
	fs.N = n
	var fl []int
	for _, f := range fs.Flush {
		if f < n {
			fl = append(fl, f)
		}
	}
	fs.Flush = fl
	if fs.Writer == "ref" {
		var parts []int
		left := n
		for _, p := range fs.Parts {
			if left == 0 {
				break
			}
			c := min(p, left)
			parts = append(parts, c)
			left -= c
		}
		if left > 0 {
			parts = append(parts, left)
		}
		fs.Parts = parts
	}
	return fs
}
