package main

import (
	"bytes"
	"errors"
	"fmt"
	"os"
	"reflect"
	"runtime"
	"strings"
	"unsafe"

	"github.com/philpearl/avro"

	"verif/sim/ref"
)

// C11 — decoded values are fully visible to the garbage collector.
//
// The collector is the adversary and the simulator owns its schedule: workers
// run with GOGC=off, so a collection happens exactly at the numbered GC points
// the plan selects — a full runtime.GC() followed by churn (allocation of
// poisoned objects in the size classes the decoder uses, so anything wrongly
// freed is promptly overwritten). GC points exist in the callback, in every
// SimDisk read/write, after ReadFile returns, around bank closes and — through
// Probe fields whose codec is registered via the public avro.Register seam —
// INSIDE a record: between fields, array items and map entries, during decode,
// skip and MapCodec.Write's iteration.
//
// Oracle: run A (no collection at all) vs run B (the plan's collections) of
// the same plan.

// Probe is a boolean on the wire; its registered codec calls the simulator.
type Probe bool

type ProbeRec struct {
	P Probe   `json:"p"`
	S string  `json:"s"`
	L []int64 `json:"l"`
	Z Probe   `json:"z"` // last field: its after-point runs when nothing on the stack needs the record any more
}

type GCA struct { // maps behind pointers
	P0  Probe                `json:"p0"`
	PM  *map[string]int64    `json:"pm"`
	P1  Probe                `json:"p1"`
	PPM **map[string]string  `json:"ppm"`
	P2  Probe                `json:"p2"`
	LPM []*map[string]int64  `json:"lpm"`
	P3  Probe                `json:"p3"`
	PMR *map[string]ProbeRec `json:"pmr"`
}

type GCB struct { // maps of maps, of slices, of records
	P0  Probe                       `json:"p0"`
	MM  map[string]map[string]int64 `json:"mm"`
	P1  Probe                       `json:"p1"`
	ML  map[string][]int64          `json:"ml"`
	MR  map[string]ProbeRec         `json:"mr"`
	P2  Probe                       `json:"p2"`
	MLS map[string][]string         `json:"mls"`
}

type GCC struct { // slices and pointers
	P0  Probe      `json:"p0"`
	PL  *[]int64   `json:"pl"`
	LP  []*Inner   `json:"lp"`
	PP  **Inner    `json:"pp"`
	PY  *[]byte    `json:"py"`
	LL  [][]string `json:"ll"`
	LPR []ProbeRec `json:"lpr"`
	PLS *[]string  `json:"pls"`
	P1  Probe      `json:"p1"`
}

type GCE struct { // GC points INSIDE map values while they are being built
	P0  Probe                       `json:"p0"`
	MLP map[string][]ProbeRec       `json:"mlp"`
	MMP map[string]map[string]Probe `json:"mmp"`
	MPP map[string]*ProbeRec        `json:"mpp"`
	MLL map[string][][]Probe        `json:"mll"`
	MLS map[string][]Probe          `json:"mls"`
	P1  Probe                       `json:"p1"`
}

// Wrap has no pointer-bearing field of its own: what needs the collector's
// attention sits one struct level down.
type Wrap struct {
	N    int64 `json:"n"`
	In   Inner `json:"in"`
	Deep struct {
		L []int64           `json:"l"`
		M map[string]string `json:"m" verif:"max1"`
		Y []byte            `json:"y"`
	} `json:"deep"`
	F float64 `json:"f"`
}

type GCN struct { // records behind pointers whose pointers are nested by value
	P0 Probe   `json:"p0"`
	PW *Wrap   `json:"pw"`
	P1 Probe   `json:"p1"`
	LW []*Wrap `json:"lw"`
	PP **Wrap  `json:"pp"`
	P2 Probe   `json:"p2"`
}

type GCD struct { // all of the above behind a pointer, a slice and a map
	ID int64          `json:"id"`
	A  *GCA           `json:"a"`
	LB []GCB          `json:"lb"`
	MC map[string]GCC `json:"mc"`
	P  Probe          `json:"p"`
	S  string         `json:"s"`
}

type GCF struct { // fixed behind pointers (reference-writer files only)
	ID  int64      `json:"id"`
	P0  Probe      `json:"p0"`
	F   *[8]byte   `json:"f"`
	G   [4]byte    `json:"g"`
	P1  Probe      `json:"p1"`
	S   *string    `json:"s"`
	PPF **[8]byte  `json:"ppf"`
	LF  []*[4]byte `json:"lf"`
	PPG **[24]byte `json:"ppg"`
}

type probeCodec struct{ avro.BoolCodec }

func (c probeCodec) Read(r *avro.ReadBuf, p unsafe.Pointer) error {
	gcPoint("probe-read")
	err := c.BoolCodec.Read(r, p)
	// A second point AFTER the value has been stored: p is dead here, so the
	// memory being filled is reachable only through whatever the decoder
	// itself keeps (this is where a value parked in pointer-free scratch
	// memory is lost).
	gcPoint("probe-read-after")
	return err
}

func (c probeCodec) Skip(r *avro.ReadBuf) error {
	gcPoint("probe-skip")
	return c.BoolCodec.Skip(r)
}

func (c probeCodec) Write(w *avro.WriteBuf, p unsafe.Pointer) {
	gcPoint("probe-write")
	c.BoolCodec.Write(w, p)
	gcPoint("probe-write-after")
}

func init() {
	avro.Register(reflect.TypeFor[Probe](), func(schema avro.Schema, typ reflect.Type, omit bool) (avro.Codec, error) {
		return probeCodec{}, nil
	})
	avro.RegisterSchema(reflect.TypeFor[Probe](), avro.Schema{Type: "boolean"})
	for _, d := range []*TypeDesc{desc[GCA]("GCA", false, true), desc[GCB]("GCB", false, true), desc[GCC]("GCC", false, false), desc[GCD]("GCD", false, true), desc[GCE]("GCE", false, true), desc[GCN]("GCN", false, false), desc[GCF]("GCF", true, false)} {
		d.GCOnly = true
		addType(d)
	}
	register(c11Prop{})
}

// ---------------------------------------------------------------------------
// The simulator-owned collector schedule

type ChurnSpec struct {
	N          int   `json:"n"`
	ByteSizes  []int `json:"byte_sizes"`
	PtrLens    []int `json:"ptr_lens"`
	MapEntries []int `json:"map_entries"`
}

type gcSched struct {
	pt     int
	at     map[int]bool
	every  int
	churn  ChurnSpec
	doGC   bool
	fired  Counter
	onGC   func(kind string, pt int)
	inGC   bool
	points Counter
	nfired int
}

// gcMaxPerRun bounds the collections of one run (a plan with "every point" on
// a 1-byte-chunk reader would otherwise run tens of thousands of them).
const gcMaxPerRun = 600

var curGC *gcSched

var churnKeep [64]any
var churnSentinel int64 = 0x5a5a5a5a5a5a5a5a

func gcPoint(kind string) {
	s := curGC
	if s == nil || s.inGC {
		return
	}
	s.pt++
	s.points.Inc(kind)
	tick()
	if !s.doGC {
		return
	}
	if (s.at[s.pt] || (s.every > 0 && s.pt%s.every == 0)) && s.nfired < gcMaxPerRun {
		s.inGC = true
		s.nfired++
		if s.nfired%40 == 0 {
			fmt.Fprintf(os.Stderr, "@@GC %d\n", s.nfired) // progress for the controller's per-step CPU budget
		}
		s.fired.Inc("GC(" + kind + ")")
		runtime.GC()
		for i := 0; i < 8; i++ {
			runtime.Gosched() // let the finalizer goroutine run (it is part of what a collection does)
		}
		doChurn(s.churn)
		if s.onGC != nil {
			s.onGC(kind, s.pt)
		}
		s.inGC = false
	}
}

func doChurn(c ChurnSpec) {
	k := 0
	keep := func(x any) { churnKeep[k%len(churnKeep)] = x; k++ }
	for i := 0; i < c.N; i++ {
		for _, sz := range c.ByteSizes {
			b := make([]byte, sz)
			for j := range b {
				b[j] = 0xaa
			}
			keep(b)
			keep(strings.Repeat("Z", sz))
			w := make([]int64, (sz+7)/8)
			for j := range w {
				w[j] = churnSentinel
			}
			keep(w)
		}
		for _, n := range c.PtrLens {
			p := make([]*int64, n)
			for j := range p {
				p[j] = &churnSentinel
			}
			keep(p)
			s := make([]string, n)
			for j := range s {
				s[j] = "ZZZZZZZZ"
			}
			keep(s)
			in := make([]Inner, n)
			for j := range in {
				in[j] = Inner{A: churnSentinel, S: "ZZZZ"}
			}
			keep(in)
		}
		for _, n := range c.MapEntries {
			m := make(map[string]int64)
			m2 := make(map[string]string)
			m3 := make(map[string]map[string]int64)
			m4 := make(map[string][]int64)
			for j := 0; j < n; j++ {
				key := fmt.Sprintf("churn%d", j)
				m[key] = churnSentinel
				m2[key] = "ZZZZZZ"
				m3[key] = m
				m4[key] = []int64{churnSentinel}
			}
			keep(m)
			keep(m2)
			keep(m3)
			keep(m4)
			pm := new(map[string]int64)
			*pm = m
			keep(pm)
		}
	}
}

// ---------------------------------------------------------------------------

type C11Plan struct {
	Dir    string    `json:"dir"` // decode | encode
	File   FileSpec  `json:"file"`
	Chunks ChunkSpec `json:"chunks"`
	GCRaw  []uint32  `json:"gc_raw"` // raw draws; GC point = 1 + raw % (number of points of the run)
	Every  int       `json:"every"`  // > 0: additionally collect at every Every-th point
	Churn  ChurnSpec `json:"churn"`
	// Project reads into a target without the map/slice fields' siblings
	// (decode only): exercises Skip paths with probes.
	Project bool `json:"project,omitempty"`
	// DropBanks (decode only): the callback keeps the records but drops their
	// banks without ever closing them, and the file is read a second time
	// while the first batch is still held (a bank that is never closed must
	// never be recycled, whatever the collector does in between).
	DropBanks bool `json:"drop_banks,omitempty"`
	// With DropBanks: both passes decode into ONE struct the caller owns
	// (pointer `out`), and the first pass is stopped by a callback error at
	// record AbortAt (-1: runs to the end).
	OutPtr  bool `json:"out_ptr,omitempty"`
	AbortAt int  `json:"abort_at,omitempty"`
	// RenderOnly (decode only): run B keeps nothing — each record is rendered
	// to text in the callback, its bank closed, and the texts compared with
	// run A's. Whatever the library itself caches between records (e.g. time
	// zones) is then the only thing keeping such state alive across the
	// plan's collections.
	RenderOnly bool `json:"render_only,omitempty"`
}

var errC11Abort = errors.New("c11: callback gives up")

type c11Prop struct{}

func (c11Prop) ID() string    { return "C11" }
func (c11Prop) Level() string { return "exploration" }
func (c11Prop) Race() bool    { return false }

func (c11Prop) Count(tier string) int {
	if tier == "thorough" {
		return 120000
	}
	return 4000
}

func (c11Prop) Rule() string {
	return "plan = (direction decode|encode, record type from the GC shapes {*map, **map, []*map, *map of records, map of maps / slices / records, *[]T, []*T, **T, *[]byte, [][]T, *[N]byte, all of them behind a pointer, a slice and a map} or a curated type, seeded values, codec, block structure, reader chunking, the set of numbered GC points at which a full collection + churn runs, churn size classes). " +
		"Each plan is executed twice in the same worker: run A with no collection at all (GOGC=off), run B with the plan's collections; one execution = one run. After every collection of B and at the end every value B holds must equal A's copy; for encode the bytes of B must decode to A's datums. " +
		"Non-trivial = run B with >= 1 collection fired. distinct_nontrivial counts distinct (type, direction, GC-point kind, position of the point in the run: first/middle/last third, churn class) signatures."
}

func (c11Prop) Assumptions() []string {
	return []string{
		"GOGC=off in the worker: collections happen only where the plan places them (runtime.GC is a full, synchronous, stop-the-world-finished collection including sweep)",
		"a wrongly freed object shows as a value mismatch or a crash only after its memory is reused: churn allocates pointerful and pointer-free objects of the size classes maps, slices, strings and small structs use; manifestation depends on the allocator and was stable in every trial (DESIGN §9)",
		"run A (no collection) is the reference, so what the decoder makes of a value is not judged here",
		"pointer chains ending in a slice or map are generated non-nil (nil there has no encoding in this library: a C01 matter)",
		"go1.24.0 runtime (the repository's toolchain)",
	}
}

func (c11Prop) Generate(seed uint64, idx int, tier string) *Plan {
	r := NewRng(seed, uint64(idx)<<8|0x11)
	pl := &C11Plan{Dir: "decode", Chunks: genChunks(r)}
	if r.P(1, 4) {
		pl.Dir = "encode"
	}
	types := []string{"GCA", "GCA", "GCB", "GCB", "GCC", "GCC", "GCD", "GCD", "GCE", "GCE", "GCE", "GCN", "GCN", "GCF", "Maps", "Slices", "Ptrs", "Mixed", "Nested", "Timed", "Timed", "Nulls", "NullPtrs"}
	if pl.Dir == "encode" {
		types = []string{"GCA", "GCB", "GCB", "GCC", "GCD", "GCD", "GCE", "GCE", "GCN", "Maps", "Mixed"}
	}
	fs := genFileSpec(r, types, pl.Dir == "decode", 8)
	if fs.N == 0 {
		fs.N = r.Range(1, 6)
		if fs.Writer == "ref" {
			fs.Parts = []int{fs.N}
		}
	}
	fs.VClass = r.PickInt([]int{0, 1, 1, 2})
	if fs.Type == "GCD" && fs.VClass == 2 {
		fs.VClass = 1
	}
	if fs.Writer == "enc" {
		fs.BlockSize = r.PickInt([]int{0, 1, 50, 400, 1 << 20})
	}
	pl.File = fs
	n := r.Range(1, 6)
	for i := 0; i < n; i++ {
		pl.GCRaw = append(pl.GCRaw, r.Uint32())
	}
	switch r.Intn(6) {
	case 0:
		pl.Every = 1
	case 1:
		pl.Every = r.Range(2, 7)
	}
	pl.Churn = ChurnSpec{N: r.PickInt([]int{3, 10, 30}), ByteSizes: []int{8, 16, 24, 32, 48, 64, 96, 128, 208, 416}, PtrLens: []int{1, 2, 3, 4, 6, 8, 13, 16, 32}, MapEntries: []int{0, 1, 2, 5, 9, 20}}
	if pl.Dir == "decode" && strings.HasPrefix(fs.Type, "GC") && fs.Type != "GCF" {
		pl.Project = r.P(1, 5)
	}
	if pl.Dir == "decode" {
		pl.DropBanks = r.P(1, 4)
		pl.RenderOnly = !pl.DropBanks && r.P(1, 5)
		pl.AbortAt = -1
		if pl.DropBanks && r.P(1, 2) {
			pl.OutPtr = true
			pl.AbortAt = r.Range(0, 3)
		}
	}
	return &Plan{Prop: "C11", Seed: seed, Idx: idx, Tier: tier, C11: pl}
}

// projectedType drops every second non-Probe field of a GC shape, so that the
// dropped fields are skipped (with probes firing inside the skipped values).
func projectedType(t reflect.Type) reflect.Type {
	var fields []reflect.StructField
	k := 0
	for i := 0; i < t.NumField(); i++ {
		f := t.Field(i)
		if f.Type != reflect.TypeFor[Probe]() {
			k++
			if k%2 == 0 {
				continue
			}
		}
		fields = append(fields, reflect.StructField{Name: f.Name, Type: f.Type, Tag: f.Tag})
	}
	return reflect.StructOf(fields)
}

func thirds(pt, total int) string {
	switch {
	case pt*3 <= total:
		return "early"
	case pt*3 <= 2*total:
		return "middle"
	}
	return "late"
}

func (c11Prop) Execute(p *Plan, run *Run) any {
	pl := p.C11
	defer func() { curGC = nil }()
	churnClass := fmt.Sprintf("churn%d", pl.Churn.N)
	if pl.Dir == "encode" {
		return c11Encode(p, run, churnClass)
	}
	bf, err := BuildFile(pl.File)
	if err != nil {
		run.Probes.Inc("skipped:workload-unbuildable")
		run.Log.Add("skip")
		return map[string]any{"skipped": err.Error()}
	}
	target := bf.Desc.Type
	if pl.Project {
		target = projectedType(target)
	}

	// ---- run A: no collection; deep copies taken immediately
	schedA := &gcSched{fired: Counter{}, points: Counter{}}
	curGC = schedA
	var A []reflect.Value
	var errA error
	panA, _ := func() (pan any, site string) {
		defer func() {
			if r := recover(); r != nil {
				pan, site = r, panicSite()
			}
		}()
		rd := NewDiskReader(bf.Bytes, pl.Chunks)
		rd.Yield = gcPoint
		errA = avro.ReadFile(rd, reflect.New(target).Elem().Interface(), func(val unsafe.Pointer, rb *avro.ResourceBank) error {
			gcPoint("callback")
			A = append(A, DeepCopy(reflect.NewAt(target, val).Elem()))
			rb.Close()
			return nil
		})
		gcPoint("after-readfile")
		return nil, ""
	}()
	run.Evals++
	total := schedA.pt + 2*len(A) // + close points
	if pl.DropBanks {
		total = 2 * schedA.pt // two passes, no closes
	}
	run.Log.Add("A n=%d err=%v points=%d", len(A), errA != nil, total)
	if panA != nil || errA != nil {
		run.Probes.Inc("skipped:run-A-fails")
		return map[string]any{"skipped": fmt.Sprint(errA, panA)}
	}
	if total == 0 {
		return nil
	}

	if pl.RenderOnly {
		// keep only the texts of run A: its values would themselves keep alive
		// whatever they share with later decodes (cached time zones)
		textsA := make([]string, len(A))
		for i, v := range A {
			textsA[i] = Render(v)
		}
		A = nil
		return c11RenderOnly(p, run, bf, target, textsA, total, churnClass)
	}
	// ---- run B: the plan's collections
	fmt.Fprintf(os.Stderr, "@@C11 run-B plan %d\n", p.Idx)
	schedB := &gcSched{fired: Counter{}, points: Counter{}, doGC: true, every: pl.Every, churn: pl.Churn, at: map[int]bool{}}
	for _, raw := range pl.GCRaw {
		schedB.at[1+int(raw%uint32(total))] = true
	}
	var held []reflect.Value
	var heldIdx []int // index into A of each held record
	abortedAfter := -1
	var banks []*avro.ResourceBank
	closedUpTo := 0
	violated := false
	verify := func(kind string, pt int) {
		if violated {
			return
		}
		run.Sig("%s|decode|%s|%s|%s|proj:%v|drop:%v", pl.File.Type, kind, thirds(pt, total), churnClass, pl.Project, pl.DropBanks)
		for i := closedUpTo; i < len(held); i++ {
			var ok bool
			var where string
			pan := func() (pan any) {
				defer func() { pan = recover() }()
				ok, where = EqualNorm(A[heldIdx[i]], held[i])
				return nil
			}()
			if pan != nil {
				run.Violation("c11/value-unreadable", kind, fmt.Sprintf("after the collection at GC point %d (%s): reading held record %d panicked: %v", pt, kind, i, pan), nil)
				violated = true
				return
			}
			if !ok {
				run.Violation("c11/value-changed-after-gc", kind, fmt.Sprintf("after the collection at GC point %d of %d (%s): held record %d (bank open) no longer equals what the collection-free run decoded: %s", pt, total, kind, i, where), nil)
				violated = true
				return
			}
		}
	}
	schedB.onGC = verify
	curGC = schedB
	var errB error
	panB, siteB := func() (pan any, site string) {
		defer func() {
			if r := recover(); r != nil {
				pan, site = r, panicSite()
			}
		}()
		rd := NewDiskReader(bf.Bytes, pl.Chunks)
		rd.Yield = gcPoint
		passes := 1
		if pl.DropBanks {
			passes = 2
		}
		outB := outFor(target, pl.OutPtr && pl.DropBanks)
		for pass := 0; pass < passes && errB == nil; pass++ {
			if pass > 0 {
				rd = NewDiskReader(bf.Bytes, pl.Chunks)
				rd.Yield = gcPoint
			}
			n := 0
			abortAt := -1
			if pass == 0 && pl.DropBanks && pl.AbortAt >= 0 && pl.AbortAt < len(A) {
				abortAt = pl.AbortAt
			}
			errB = avro.ReadFile(rd, outB, func(val unsafe.Pointer, rb *avro.ResourceBank) error {
				rec := reflect.New(target).Elem()
				rec.Set(reflect.NewAt(target, val).Elem())
				held = append(held, rec)
				heldIdx = append(heldIdx, n)
				if !pl.DropBanks {
					banks = append(banks, rb)
				}
				n++
				if n > len(A) {
					return fmt.Errorf("more records than run A")
				}
				gcPoint("callback")
				if n-1 == abortAt {
					return errC11Abort
				}
				return nil
			})
			if errB == errC11Abort {
				errB = nil
				abortedAfter = n
			}
			gcPoint("after-readfile")
		}
		return nil, ""
	}()
	run.Evals++
	defer func() {
		run.Faults.Merge(schedB.fired)
		run.Probes.Merge(schedB.points)
	}()
	nfired := 0
	for _, v := range schedB.fired {
		nfired += v
	}
	run.Log.Add("B n=%d err=%v fired=%d", len(held), errB != nil, nfired)
	if violated {
		return nil
	}
	if panB != nil {
		run.Violation("c11/panic-under-gc", siteB, fmt.Sprintf("run B (with collections) panicked where run A did not: %v", panB), nil)
		return nil
	}
	wantHeld := len(A)
	if pl.DropBanks {
		wantHeld = 2 * len(A)
		if abortedAfter >= 0 {
			wantHeld = abortedAfter + len(A)
		}
	}
	if errB != nil || len(held) != wantHeld {
		run.Violation("c11/result-differs-under-gc", "readfile", fmt.Sprintf("run B (with collections) delivered %d records, err=%v; run A delivered %d, err=nil", len(held), errB, len(A)), nil)
		return nil
	}
	verify("end", total)
	// bank closes, with GC points around them
	for i := range banks {
		if violated {
			break
		}
		gcPoint("before-close")
		banks[i].Close()
		closedUpTo = i + 1
		gcPoint("after-close")
	}
	if !violated {
		verify("end", total)
	}
	nfired = 0
	for _, v := range schedB.fired {
		nfired += v
	}
	return map[string]any{"dir": "decode", "type": pl.File.Type, "records": len(A), "gc_points_in_run": total, "collections_fired": nfired, "projected": pl.Project}
}

// c11RenderOnly is run B of a decode plan in which the caller retains nothing.
func c11RenderOnly(p *Plan, run *Run, bf *BuiltFile, target reflect.Type, A []string, total int, churnClass string) any {
	pl := p.C11
	fmt.Fprintf(os.Stderr, "@@C11 run-B(render-only) plan %d\n", p.Idx)
	sched := &gcSched{fired: Counter{}, points: Counter{}, doGC: true, every: pl.Every, churn: pl.Churn, at: map[int]bool{}}
	for _, raw := range pl.GCRaw {
		sched.at[1+int(raw%uint32(total))] = true
	}
	sched.onGC = func(kind string, pt int) {
		run.Sig("%s|decode-render|%s|%s|%s", pl.File.Type, kind, thirds(pt, total), churnClass)
	}
	curGC = sched
	var texts []string
	var errB error
	pan, site := func() (pan any, site string) {
		defer func() {
			if r := recover(); r != nil {
				pan, site = r, panicSite()
			}
		}()
		rd := NewDiskReader(bf.Bytes, pl.Chunks)
		rd.Yield = gcPoint
		errB = avro.ReadFile(rd, outFor(target, pl.Chunks.OutPtr), func(val unsafe.Pointer, rb *avro.ResourceBank) error {
			texts = append(texts, Render(reflect.NewAt(target, val).Elem()))
			rb.Close()
			gcPoint("callback")
			return nil
		})
		gcPoint("after-readfile")
		return nil, ""
	}()
	curGC = nil
	run.Evals++
	run.Faults.Merge(sched.fired)
	run.Probes.Merge(sched.points)
	run.Log.Add("B(render) n=%d err=%v fired=%d", len(texts), errB != nil, sched.nfired)
	if pan != nil {
		run.Violation("c11/panic-under-gc", site, fmt.Sprintf("run B (with collections, nothing retained by the caller) panicked where the collection-free run did not: %v", pan), nil)
		return nil
	}
	if errB != nil || len(texts) != len(A) {
		run.Violation("c11/result-differs-under-gc", "readfile", fmt.Sprintf("run B (with collections, nothing retained) delivered %d records, err=%v; run A delivered %d, err=nil", len(texts), errB, len(A)), nil)
		return nil
	}
	for i, t := range texts {
		if want := A[i]; t != want {
			run.Violation("c11/result-differs-under-gc", "readfile", fmt.Sprintf("record %d decoded while collections ran renders as %s; without collections as %s", i, clipN(t, 200), clipN(want, 200)), nil)
			return nil
		}
	}
	return map[string]any{"dir": "decode", "mode": "render-only", "type": pl.File.Type, "records": len(A), "gc_points_in_run": total, "collections_fired": sched.nfired}
}

func c11Encode(p *Plan, run *Run, churnClass string) any {
	pl := p.C11
	d := typeByName(pl.File.Type)
	if d.RefOnly {
		return nil
	}
	vals := GenValues(d.Type, pl.File.N, pl.File.VSeed, pl.File.VClass)
	encode := func(s *gcSched) (out []byte, err error, pan any, site string) {
		defer func() {
			if r := recover(); r != nil {
				pan, site = r, panicSite()
			}
		}()
		curGC = s
		w := &DiskWriter{Yield: gcPoint}
		pinSync(pl.File.SyncSeed)
		e, err := d.NewEnc(w, avro.Compression(pl.File.Codec), pl.File.BlockSize)
		if err != nil {
			return nil, err, nil, ""
		}
		for _, v := range vals {
			gcPoint("between-encodes")
			if err := e.Encode(v); err != nil {
				return nil, err, nil, ""
			}
		}
		gcPoint("before-flush")
		if err := e.Flush(); err != nil {
			return nil, err, nil, ""
		}
		return w.Buf, nil, nil, ""
	}
	schedA := &gcSched{fired: Counter{}, points: Counter{}}
	bytesA, errA, panA, _ := encode(schedA)
	run.Evals++
	total := schedA.pt
	if errA != nil || panA != nil || total == 0 {
		run.Probes.Inc("skipped:run-A-fails")
		run.Log.Add("skip")
		return map[string]any{"skipped": fmt.Sprint(errA, panA)}
	}
	// the values must be unchanged by encoding; keep a copy to compare after B
	before := make([]reflect.Value, len(vals))
	for i, v := range vals {
		before[i] = DeepCopy(v)
	}
	fmt.Fprintf(os.Stderr, "@@C11 run-B plan %d\n", p.Idx)
	schedB := &gcSched{fired: Counter{}, points: Counter{}, doGC: true, every: pl.Every, churn: pl.Churn, at: map[int]bool{}}
	for _, raw := range pl.GCRaw {
		schedB.at[1+int(raw%uint32(total))] = true
	}
	schedB.onGC = func(kind string, pt int) {
		run.Sig("%s|encode|%s|%s|%s", pl.File.Type, kind, thirds(pt, total), churnClass)
	}
	bytesB, errB, panB, siteB := encode(schedB)
	curGC = nil
	run.Evals++
	run.Faults.Merge(schedB.fired)
	run.Probes.Merge(schedB.points)
	nfired := 0
	for _, v := range schedB.fired {
		nfired += v
	}
	if d.HasMultiMap {
		run.Log.Add("enc fired=%d", nfired) // byte lengths depend on map iteration order (no seam)
	} else {
		run.Log.Add("enc A=%d B=%d fired=%d", len(bytesA), len(bytesB), nfired)
	}
	if panB != nil {
		run.Violation("c11/panic-under-gc", siteB, fmt.Sprintf("encoding with collections panicked where the collection-free run did not: %v", panB), nil)
		return nil
	}
	if errB != nil {
		run.Violation("c11/result-differs-under-gc", "encode", fmt.Sprintf("encoding with collections failed: %v", errB), nil)
		return nil
	}
	for i := range vals {
		if ok, where := EqualNorm(before[i], vals[i]); !ok {
			run.Violation("c11/value-changed-after-gc", "encode", fmt.Sprintf("the value being encoded changed during the run with collections: record %d %s", i, where), nil)
			return nil
		}
	}
	if !d.HasMultiMap {
		if !bytes.Equal(bytesA, bytesB) {
			run.Violation("c11/encoding-differs-under-gc", "encode", fmt.Sprintf("encoder output differs between the collection-free run (%d bytes) and the run with %d collections (%d bytes)", len(bytesA), nfired, len(bytesB)), nil)
		}
		return map[string]any{"dir": "encode", "type": pl.File.Type, "records": len(vals), "gc_points_in_run": total, "collections_fired": nfired, "compare": "bytes"}
	}
	// multi-entry maps: compare decoded datums (map order has no seam)
	s := SchemaOf(d.Type)
	da, ea := decodeAll(bytesA, s)
	db, eb := decodeAll(bytesB, s)
	if ea != nil {
		run.Probes.Inc("skipped:reference-cannot-decode-run-A")
		return map[string]any{"skipped": ea.Error()}
	}
	if eb != nil || len(da) != len(db) {
		run.Violation("c11/encoding-differs-under-gc", "encode", fmt.Sprintf("output of the run with %d collections does not decode like the collection-free run: %v (%d vs %d records)", nfired, eb, len(db), len(da)), nil)
		return nil
	}
	for i := range da {
		if !ref.Equal(da[i], db[i]) {
			run.Violation("c11/encoding-differs-under-gc", "encode", fmt.Sprintf("record %d encoded with collections running decodes to a different datum than without", i), nil)
			return nil
		}
	}
	return map[string]any{"dir": "encode", "type": pl.File.Type, "records": len(vals), "gc_points_in_run": total, "collections_fired": nfired, "compare": "datums"}
}

// decodeAll decodes every record of a container file with the reference codec.
func decodeAll(file []byte, s *ref.Schema) ([]ref.Datum, error) {
	c, err := ref.ParseContainer(file)
	if err != nil {
		return nil, err
	}
	var out []ref.Datum
	for j, bl := range c.Blocks {
		payload, err := ref.Decompress(c.Codec(), file[bl.PayloadOff:bl.PayloadEnd])
		if err != nil {
			return nil, err
		}
		d := &ref.Dec{Buf: payload}
		for k := int64(0); k < bl.Count; k++ {
			v, err := d.Decode(s)
			if err != nil {
				return nil, fmt.Errorf("block %d record %d: %w", j, k, err)
			}
			out = append(out, v)
		}
		if d.Pos != len(payload) {
			return nil, fmt.Errorf("block %d: %d bytes left over", j, len(payload)-d.Pos)
		}
	}
	return out, nil
}

func (c11Prop) Shrink(p *Plan) []*Plan {
	var out []*Plan
	mut := func(f func(q *C11Plan)) {
		q := p.clone()
		f(q.C11)
		out = append(out, q)
	}
	pl := p.C11
	for _, n := range shrinkInts(pl.File.N) {
		if n > 0 {
			mut(func(q *C11Plan) { q.File = shrinkFileN(q.File, n) })
		}
	}
	if pl.File.VClass > 0 {
		mut(func(q *C11Plan) { q.File.VClass = 0 })
	}
	if pl.File.Codec != "null" {
		mut(func(q *C11Plan) { q.File.Codec = "null" })
	}
	if pl.Every != 1 {
		mut(func(q *C11Plan) { q.Every = 1; q.GCRaw = nil })
	}
	if len(pl.GCRaw) > 1 {
		for i := range pl.GCRaw {
			i := i
			mut(func(q *C11Plan) { q.GCRaw = []uint32{q.GCRaw[i]}; q.Every = 0 })
		}
	}
	if pl.Project {
		mut(func(q *C11Plan) { q.Project = false })
	}
	if pl.DropBanks {
		mut(func(q *C11Plan) { q.DropBanks = false })
	}
	if !(len(pl.Chunks.Sizes) == 1 && pl.Chunks.Sizes[0] == 1<<20) {
		mut(func(q *C11Plan) { q.Chunks = ChunkSpec{Sizes: []int{1 << 20}} })
	}
	return out
}
