module verif/sim

go 1.24

require (
	github.com/golang/snappy v1.0.0
	github.com/philpearl/avro v0.0.0
	github.com/unravelin/null/v5 v5.0.1
)

replace github.com/philpearl/avro => /repo
