package ref

import (
	"fmt"
	"math"
)

// Source is the subset of a PRNG the datum generator needs.
type Source interface {
	Intn(n int) int
	Uint64() uint64
}

// GenOpts bounds generated datums.
type GenOpts struct {
	MaxLen   int
	MaxItems int
	// TimeText produces a timestamp string for Hint "time".
	TimeText func() string
}

// GenDatum draws a random datum of schema s, including random (legal) writer
// choices: collection block splits, sized blocks.
func GenDatum(s *Schema, r Source, o GenOpts, depth int) Datum {
	switch s.Kind {
	case "null":
		return nil
	case "boolean":
		return r.Intn(2) == 1
	case "int":
		if s.Hint == "int16" {
			// the reader's target is a 16-bit integer: stay within its range
			if r.Intn(2) == 0 {
				return int64([]int16{0, 1, -1, math.MaxInt16, math.MinInt16, 1 << 10}[r.Intn(6)])
			}
			return int64(int16(r.Uint64()))
		}
		switch r.Intn(3) {
		case 0:
			return int64(r.Intn(200) - 100)
		case 1:
			return int64([]int32{0, 1, -1, math.MaxInt32, math.MinInt32, 1 << 20}[r.Intn(6)])
		}
		return int64(int32(r.Uint64()))
	case "long":
		switch r.Intn(3) {
		case 0:
			return int64(r.Intn(200) - 100)
		case 1:
			return []int64{0, 1, -1, math.MaxInt64, math.MinInt64, 1 << 40}[r.Intn(6)]
		}
		return int64(r.Uint64() >> uint(r.Intn(64)))
	case "float":
		return float32(r.Intn(4000)-2000) / 16
	case "double":
		return float64(r.Intn(4000)-2000) / 16
	case "bytes":
		b := make([]byte, r.Intn(o.MaxLen+1))
		for i := range b {
			b[i] = byte(r.Intn(256))
		}
		return b
	case "string":
		if s.Hint == "time" && o.TimeText != nil {
			return o.TimeText()
		}
		n := r.Intn(o.MaxLen + 1)
		b := make([]byte, n)
		for i := range b {
			b[i] = byte('a' + r.Intn(26))
		}
		return string(b)
	case "fixed":
		b := make([]byte, s.Size)
		for i := range b {
			b[i] = byte(r.Intn(256))
		}
		return b
	case "record":
		rec := &Rec{}
		for _, f := range s.Fields {
			rec.Fields = append(rec.Fields, GenDatum(f.Type, r, o, depth+1))
		}
		return rec
	case "array":
		n := r.Intn(o.MaxItems + 1)
		if depth > 3 && n > 2 {
			n = 2
		}
		a := &Arr{}
		for i := 0; i < n; i++ {
			a.Items = append(a.Items, GenDatum(s.Items, r, o, depth+1))
		}
		a.Split, a.Sized = genSplit(n, r)
		return a
	case "map":
		n := r.Intn(o.MaxItems + 1)
		if depth > 3 && n > 2 {
			n = 2
		}
		m := &Map{}
		for i := 0; i < n; i++ {
			m.Keys = append(m.Keys, fmt.Sprintf("k%d", i))
			m.Vals = append(m.Vals, GenDatum(s.Values, r, o, depth+1))
		}
		m.Split, m.Sized = genSplit(n, r)
		return m
	case "union":
		b := r.Intn(len(s.Branches))
		return &Union{Branch: b, Val: GenDatum(s.Branches[b], r, o, depth+1)}
	}
	panic("ref.GenDatum: unknown kind " + s.Kind)
}

func genSplit(n int, r Source) ([]int, bool) {
	if n == 0 {
		return nil, false
	}
	sized := r.Intn(3) == 0
	if r.Intn(2) == 0 {
		return []int{n}, sized
	}
	var out []int
	for n > 0 {
		c := 1 + r.Intn(n)
		out = append(out, c)
		n -= c
	}
	return out, sized
}
