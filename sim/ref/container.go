package ref

import (
	"bytes"
	"compress/flate"
	"encoding/binary"
	"errors"
	"fmt"
	"hash/crc32"
	"io"

	"github.com/golang/snappy"
)

// MetaPair is one header metadata entry, in file order, with offsets.
type MetaPair struct {
	Key                    string
	Val                    []byte
	KeyLenOff, KeyOff      int
	ValLenOff, ValOff, End int
}

// Block is one data block with every boundary offset.
type Block struct {
	Start      int // offset of the count varint
	Count      int64
	SizeOff    int // offset of the byte-length varint
	Size       int64
	PayloadOff int
	PayloadEnd int // == SyncOff
	End        int // offset after the sync marker
}

// Container is the parsed structure of an object container file.
type Container struct {
	Meta        []MetaPair
	MetaCountAt int // offset of the first metadata block count
	MetaEndAt   int // offset of the terminating zero count
	SyncOff     int // offset of the header sync marker
	Sync        [16]byte
	HdrEnd      int
	Blocks      []Block
	Len         int
}

var Magic = [4]byte{'O', 'b', 'j', 1}

// ParseHeader parses only the header of a container file (whatever follows is
// not looked at).
func ParseHeader(b []byte) (*Container, error) { return parse(b, true) }

// ParseContainer parses a complete, valid container file.
func ParseContainer(b []byte) (*Container, error) { return parse(b, false) }

func parse(b []byte, headerOnly bool) (*Container, error) {
	c := &Container{Len: len(b)}
	d := &Dec{Buf: b}
	m, err := d.next(4)
	if err != nil || !bytes.Equal(m, Magic[:]) {
		return nil, errors.New("ref: bad magic")
	}
	c.MetaCountAt = d.Pos
	for {
		at := d.Pos
		n, err := d.long()
		if err != nil {
			return nil, err
		}
		if n == 0 {
			c.MetaEndAt = at
			break
		}
		if n < 0 {
			n = -n
			if _, err := d.long(); err != nil {
				return nil, err
			}
		}
		for ; n > 0; n-- {
			var p MetaPair
			p.KeyLenOff = d.Pos
			l, err := d.long()
			if err != nil {
				return nil, err
			}
			p.KeyOff = d.Pos
			k, err := d.next(l)
			if err != nil {
				return nil, err
			}
			p.Key = string(k)
			p.ValLenOff = d.Pos
			l, err = d.long()
			if err != nil {
				return nil, err
			}
			p.ValOff = d.Pos
			v, err := d.next(l)
			if err != nil {
				return nil, err
			}
			p.Val = v
			p.End = d.Pos
			c.Meta = append(c.Meta, p)
		}
	}
	c.SyncOff = d.Pos
	s, err := d.next(16)
	if err != nil {
		return nil, err
	}
	copy(c.Sync[:], s)
	c.HdrEnd = d.Pos
	if headerOnly {
		return c, nil
	}
	for d.Pos < len(b) {
		var bl Block
		bl.Start = d.Pos
		if bl.Count, err = d.long(); err != nil {
			return nil, err
		}
		bl.SizeOff = d.Pos
		if bl.Size, err = d.long(); err != nil {
			return nil, err
		}
		bl.PayloadOff = d.Pos
		if _, err := d.next(bl.Size); err != nil {
			return nil, fmt.Errorf("ref: block %d payload: %w", len(c.Blocks), err)
		}
		bl.PayloadEnd = d.Pos
		s, err := d.next(16)
		if err != nil {
			return nil, fmt.Errorf("ref: block %d sync: %w", len(c.Blocks), err)
		}
		if !bytes.Equal(s, c.Sync[:]) {
			return nil, fmt.Errorf("ref: block %d sync mismatch", len(c.Blocks))
		}
		bl.End = d.Pos
		c.Blocks = append(c.Blocks, bl)
	}
	return c, nil
}

// MetaValue returns the value of the named metadata key.
func (c *Container) MetaValue(key string) ([]byte, bool) {
	for _, p := range c.Meta {
		if p.Key == key {
			return p.Val, true
		}
	}
	return nil, false
}

// Codec returns the codec the header declares ("null" when absent).
func (c *Container) Codec() string {
	v, ok := c.MetaValue("avro.codec")
	if !ok {
		return "null"
	}
	return string(v)
}

// Compress compresses a block payload under the named codec ("none" = header
// has no codec entry, payload uncompressed).
func Compress(codec string, payload []byte) ([]byte, error) {
	switch codec {
	case "null", "none":
		return payload, nil
	case "deflate":
		var out bytes.Buffer
		w, err := flate.NewWriter(&out, flate.DefaultCompression)
		if err != nil {
			return nil, err
		}
		if _, err := w.Write(payload); err != nil {
			return nil, err
		}
		if err := w.Close(); err != nil {
			return nil, err
		}
		return out.Bytes(), nil
	case "snappy":
		out := snappy.Encode(nil, payload)
		return binary.BigEndian.AppendUint32(out, crc32.ChecksumIEEE(payload)), nil
	}
	return nil, fmt.Errorf("ref: unknown codec %q", codec)
}

// Decompress is the independent decompressor used as a verdict: a non-nil
// error means "the decompressor rejects this payload".
func Decompress(codec string, stored []byte) ([]byte, error) {
	switch codec {
	case "null", "none":
		return stored, nil
	case "deflate":
		r := flate.NewReader(bytes.NewReader(stored))
		out, err := io.ReadAll(r)
		if err != nil {
			return nil, err
		}
		return out, nil
	case "snappy":
		if len(stored) < 4 {
			return nil, errors.New("ref: snappy block shorter than its checksum")
		}
		body := stored[:len(stored)-4]
		// snappy.Decode allocates the declared length up front; no valid stream
		// expands by more than 64/3, so a larger claim is a rejection (and must
		// not be allowed to exhaust the oracle's own memory).
		if n, err := snappy.DecodedLen(body); err != nil {
			return nil, err
		} else if n > 22*len(body)+64 {
			return nil, errors.New("ref: snappy stream declares an impossible length")
		}
		out, err := snappy.Decode(nil, body)
		if err != nil {
			return nil, err
		}
		if crc32.ChecksumIEEE(out) != binary.BigEndian.Uint32(stored[len(stored)-4:]) {
			return nil, errors.New("ref: snappy checksum mismatch")
		}
		return out, nil
	}
	return nil, fmt.Errorf("ref: unknown codec %q", codec)
}

// BlockSpec is one block handed to WriteContainer: record count and the
// stored (already compressed) payload.
type BlockSpec struct {
	Count  int64
	Stored []byte
	// DeclaredSize overrides the byte length written in front of the payload
	// when non-nil (a torn or stale length).
	DeclaredSize *int64
}

// KV is a header metadata entry.
type KV struct {
	Key string
	Val []byte
}

// WriteContainer renders a container file with all metadata in one map block.
func WriteContainer(magic [4]byte, meta []KV, sync [16]byte, blocks []BlockSpec) []byte {
	return WriteContainerMeta(magic, [][]KV{meta}, sync, blocks)
}

// WriteContainerMeta renders a container file whose header metadata map is
// written as the given sequence of map blocks (each non-empty group is one
// block with a positive count), which the specification permits.
func WriteContainerMeta(magic [4]byte, metaBlocks [][]KV, sync [16]byte, blocks []BlockSpec) []byte {
	var b []byte
	b = append(b, magic[:]...)
	for _, meta := range metaBlocks {
		if len(meta) == 0 {
			continue
		}
		b = AppendLong(b, int64(len(meta)))
		for _, kv := range meta {
			b = AppendLong(b, int64(len(kv.Key)))
			b = append(b, kv.Key...)
			b = AppendLong(b, int64(len(kv.Val)))
			b = append(b, kv.Val...)
		}
	}
	b = AppendLong(b, 0)
	b = append(b, sync[:]...)
	for _, bl := range blocks {
		b = AppendLong(b, bl.Count)
		sz := int64(len(bl.Stored))
		if bl.DeclaredSize != nil {
			sz = *bl.DeclaredSize
		}
		b = AppendLong(b, sz)
		b = append(b, bl.Stored...)
		b = append(b, sync[:]...)
	}
	return b
}

// StdMeta builds the usual metadata: schema and (unless codec is "none") codec.
func StdMeta(schemaJSON string, codec string) []KV {
	m := []KV{{Key: "avro.schema", Val: []byte(schemaJSON)}}
	if codec != "none" {
		m = append(m, KV{Key: "avro.codec", Val: []byte(codec)})
	}
	return m
}
