package ref

import (
	"encoding/binary"
	"errors"
	"fmt"
	"math"
)

// Datum values:
//
//	nil       null
//	bool      boolean
//	int64     int, long
//	float32   float
//	float64   double
//	[]byte    bytes, fixed
//	string    string
//	*Arr      array
//	*Map      map
//	*Union    union
//	*Rec      record
type Datum any

// Arr is an array datum together with the writer's blocking choice.
type Arr struct {
	Items []Datum
	// Split lists the number of items per block; nil means one block (or none
	// when empty). The sum must equal len(Items).
	Split []int
	// Sized writes each block with a negative count followed by its byte size.
	Sized bool
}

// Map is a map datum (ordered, so the encoding is reproducible).
type Map struct {
	Keys  []string
	Vals  []Datum
	Split []int
	Sized bool
}

type Union struct {
	Branch int
	Val    Datum
}

type Rec struct{ Fields []Datum }

// Site is one encoded field inside an encoding: where it is and what it is.
type Site struct {
	Off, Len int
	Kind     string // long int bool float double str-len str-body bytes-len bytes-body fixed arr-count arr-bsize arr-end map-count map-bsize map-end key-len key-body union-sel
	Path     string
	// ZeroWidthItems is set on arr-count / map-count sites whose item schema
	// encodes to zero bytes (null, empty record).
	ZeroWidthItems bool
}

// Enc accumulates an encoding and its field map.
type Enc struct {
	Buf   []byte
	Sites []Site
	NoMap bool
}

func AppendLong(b []byte, v int64) []byte {
	u := uint64(v<<1) ^ uint64(v>>63)
	for u >= 0x80 {
		b = append(b, byte(u)|0x80)
		u >>= 7
	}
	return append(b, byte(u))
}

func (e *Enc) site(off int, kind, path string) {
	if e.NoMap {
		return
	}
	e.Sites = append(e.Sites, Site{Off: off, Len: len(e.Buf) - off, Kind: kind, Path: path})
}

func (e *Enc) long(v int64, kind, path string) {
	off := len(e.Buf)
	e.Buf = AppendLong(e.Buf, v)
	e.site(off, kind, path)
}

// ZeroWidth reports whether every datum of the schema encodes to no bytes.
func ZeroWidth(s *Schema) bool {
	switch s.Kind {
	case "null":
		return true
	case "record":
		for _, f := range s.Fields {
			if !ZeroWidth(f.Type) {
				return false
			}
		}
		return true
	case "fixed":
		return s.Size == 0
	}
	return false
}

// Encode appends the binary encoding of d under s.
func (e *Enc) Encode(s *Schema, d Datum, path string) error {
	switch s.Kind {
	case "null":
		if d != nil {
			return fmt.Errorf("%s: null wants nil, got %T", path, d)
		}
	case "boolean":
		v, ok := d.(bool)
		if !ok {
			return fmt.Errorf("%s: boolean wants bool, got %T", path, d)
		}
		off := len(e.Buf)
		if v {
			e.Buf = append(e.Buf, 1)
		} else {
			e.Buf = append(e.Buf, 0)
		}
		e.site(off, "bool", path)
	case "int", "long":
		v, ok := d.(int64)
		if !ok {
			return fmt.Errorf("%s: %s wants int64, got %T", path, s.Kind, d)
		}
		e.long(v, s.Kind, path)
	case "float":
		v, ok := d.(float32)
		if !ok {
			return fmt.Errorf("%s: float wants float32, got %T", path, d)
		}
		off := len(e.Buf)
		e.Buf = binary.LittleEndian.AppendUint32(e.Buf, math.Float32bits(v))
		e.site(off, "float", path)
	case "double":
		v, ok := d.(float64)
		if !ok {
			return fmt.Errorf("%s: double wants float64, got %T", path, d)
		}
		off := len(e.Buf)
		e.Buf = binary.LittleEndian.AppendUint64(e.Buf, math.Float64bits(v))
		e.site(off, "double", path)
	case "bytes":
		v, ok := d.([]byte)
		if !ok {
			return fmt.Errorf("%s: bytes wants []byte, got %T", path, d)
		}
		e.long(int64(len(v)), "bytes-len", path)
		off := len(e.Buf)
		e.Buf = append(e.Buf, v...)
		e.site(off, "bytes-body", path)
	case "string":
		v, ok := d.(string)
		if !ok {
			return fmt.Errorf("%s: string wants string, got %T", path, d)
		}
		e.long(int64(len(v)), "str-len", path)
		off := len(e.Buf)
		e.Buf = append(e.Buf, v...)
		e.site(off, "str-body", path)
	case "fixed":
		v, ok := d.([]byte)
		if !ok || len(v) != s.Size {
			return fmt.Errorf("%s: fixed(%d) wants []byte of that size, got %T", path, s.Size, d)
		}
		off := len(e.Buf)
		e.Buf = append(e.Buf, v...)
		e.site(off, "fixed", path)
	case "record":
		v, ok := d.(*Rec)
		if !ok || len(v.Fields) != len(s.Fields) {
			return fmt.Errorf("%s: record wants *Rec with %d fields, got %T", path, len(s.Fields), d)
		}
		for i, f := range s.Fields {
			if err := e.Encode(f.Type, v.Fields[i], path+"."+f.Name); err != nil {
				return err
			}
		}
	case "array":
		v, ok := d.(*Arr)
		if !ok {
			return fmt.Errorf("%s: array wants *Arr, got %T", path, d)
		}
		return e.blocks(len(v.Items), v.Split, v.Sized, "arr", path, ZeroWidth(s.Items), func(i int) error {
			return e.Encode(s.Items, v.Items[i], fmt.Sprintf("%s[%d]", path, i))
		})
	case "map":
		v, ok := d.(*Map)
		if !ok || len(v.Keys) != len(v.Vals) {
			return fmt.Errorf("%s: map wants *Map, got %T", path, d)
		}
		return e.blocks(len(v.Keys), v.Split, v.Sized, "map", path, false, func(i int) error {
			p := fmt.Sprintf("%s{%d}", path, i)
			e.long(int64(len(v.Keys[i])), "key-len", p)
			off := len(e.Buf)
			e.Buf = append(e.Buf, v.Keys[i]...)
			e.site(off, "key-body", p)
			return e.Encode(s.Values, v.Vals[i], p)
		})
	case "union":
		v, ok := d.(*Union)
		if !ok || v.Branch < 0 || v.Branch >= len(s.Branches) {
			return fmt.Errorf("%s: union wants *Union in range, got %T", path, d)
		}
		e.long(int64(v.Branch), "union-sel", path)
		return e.Encode(s.Branches[v.Branch], v.Val, path)
	default:
		return fmt.Errorf("%s: unknown kind %q", path, s.Kind)
	}
	return nil
}

func (e *Enc) blocks(n int, split []int, sized bool, kind, path string, zw bool, item func(i int) error) error {
	if split == nil && n > 0 {
		split = []int{n}
	}
	i := 0
	for _, c := range split {
		if c <= 0 {
			return fmt.Errorf("%s: non-positive block size in split", path)
		}
		if i+c > n {
			return fmt.Errorf("%s: split exceeds item count", path)
		}
		if sized {
			// Encode the items first to learn the byte size.
			sub := &Enc{NoMap: e.NoMap}
			saved := e.Buf
			e.Buf = nil
			savedSites := e.Sites
			e.Sites = nil
			for k := 0; k < c; k++ {
				if err := item(i + k); err != nil {
					return err
				}
			}
			sub.Buf, sub.Sites = e.Buf, e.Sites
			e.Buf, e.Sites = saved, savedSites
			e.long(int64(-c), kind+"-count", path)
			if !e.NoMap {
				e.Sites[len(e.Sites)-1].ZeroWidthItems = zw
			}
			e.long(int64(len(sub.Buf)), kind+"-bsize", path)
			base := len(e.Buf)
			e.Buf = append(e.Buf, sub.Buf...)
			for _, s := range sub.Sites {
				s.Off += base
				e.Sites = append(e.Sites, s)
			}
		} else {
			e.long(int64(c), kind+"-count", path)
			if !e.NoMap {
				e.Sites[len(e.Sites)-1].ZeroWidthItems = zw
			}
			for k := 0; k < c; k++ {
				if err := item(i + k); err != nil {
					return err
				}
			}
		}
		i += c
	}
	if i != n {
		return fmt.Errorf("%s: split covers %d of %d items", path, i, n)
	}
	e.long(0, kind+"-end", path)
	return nil
}

// ---------------------------------------------------------------------------
// Decoding

var ErrShort = errors.New("ref: unexpected end of data")

type Dec struct {
	Buf []byte
	Pos int
}

func (d *Dec) long() (int64, error) {
	var u uint64
	var shift uint
	for i := 0; ; i++ {
		if d.Pos >= len(d.Buf) {
			return 0, ErrShort
		}
		b := d.Buf[d.Pos]
		d.Pos++
		if i == 9 && b > 1 {
			return 0, errors.New("ref: varint overflows 64 bits")
		}
		u |= uint64(b&0x7f) << shift
		if b < 0x80 {
			break
		}
		shift += 7
	}
	return int64(u>>1) ^ -int64(u&1), nil
}

func (d *Dec) next(n int64) ([]byte, error) {
	if n < 0 || n > int64(len(d.Buf)-d.Pos) {
		return nil, ErrShort
	}
	b := d.Buf[d.Pos : d.Pos+int(n)]
	d.Pos += int(n)
	return b, nil
}

// Decode reads one datum of schema s. Collections come back as a single block
// (Split nil), so decoded datums compare equal regardless of how they were
// blocked by the writer.
func (d *Dec) Decode(s *Schema) (Datum, error) {
	switch s.Kind {
	case "null":
		return nil, nil
	case "boolean":
		b, err := d.next(1)
		if err != nil {
			return nil, err
		}
		return b[0] != 0, nil
	case "int", "long":
		return d.long()
	case "float":
		b, err := d.next(4)
		if err != nil {
			return nil, err
		}
		return math.Float32frombits(binary.LittleEndian.Uint32(b)), nil
	case "double":
		b, err := d.next(8)
		if err != nil {
			return nil, err
		}
		return math.Float64frombits(binary.LittleEndian.Uint64(b)), nil
	case "bytes":
		l, err := d.long()
		if err != nil {
			return nil, err
		}
		b, err := d.next(l)
		if err != nil {
			return nil, err
		}
		return append([]byte{}, b...), nil
	case "string":
		l, err := d.long()
		if err != nil {
			return nil, err
		}
		b, err := d.next(l)
		if err != nil {
			return nil, err
		}
		return string(b), nil
	case "fixed":
		b, err := d.next(int64(s.Size))
		if err != nil {
			return nil, err
		}
		return append([]byte{}, b...), nil
	case "record":
		r := &Rec{Fields: make([]Datum, len(s.Fields))}
		for i, f := range s.Fields {
			v, err := d.Decode(f.Type)
			if err != nil {
				return nil, fmt.Errorf("field %s: %w", f.Name, err)
			}
			r.Fields[i] = v
		}
		return r, nil
	case "array":
		a := &Arr{}
		err := d.blocks(func() error {
			v, err := d.Decode(s.Items)
			if err != nil {
				return err
			}
			a.Items = append(a.Items, v)
			return nil
		})
		return a, err
	case "map":
		m := &Map{}
		err := d.blocks(func() error {
			l, err := d.long()
			if err != nil {
				return err
			}
			k, err := d.next(l)
			if err != nil {
				return err
			}
			v, err := d.Decode(s.Values)
			if err != nil {
				return err
			}
			m.Keys = append(m.Keys, string(k))
			m.Vals = append(m.Vals, v)
			return nil
		})
		return m, err
	case "union":
		b, err := d.long()
		if err != nil {
			return nil, err
		}
		if b < 0 || b >= int64(len(s.Branches)) {
			return nil, fmt.Errorf("ref: union branch %d out of range", b)
		}
		v, err := d.Decode(s.Branches[b])
		if err != nil {
			return nil, err
		}
		return &Union{Branch: int(b), Val: v}, nil
	}
	return nil, fmt.Errorf("ref: unknown kind %q", s.Kind)
}

func (d *Dec) blocks(item func() error) error {
	for {
		c, err := d.long()
		if err != nil {
			return err
		}
		if c == 0 {
			return nil
		}
		if c < 0 {
			if c == math.MinInt64 {
				return errors.New("ref: block count overflow")
			}
			c = -c
			if _, err := d.long(); err != nil {
				return err
			}
		}
		if c > int64(len(d.Buf))*8+64 {
			// cannot be a real count for non-zero-width items; zero-width
			// items are capped too: the reference is only ever run on data the
			// harness generated.
			return errors.New("ref: implausible block count")
		}
		for ; c > 0; c-- {
			if err := item(); err != nil {
				return err
			}
		}
	}
}

// Equal compares two datums structurally. Maps are compared as multisets of
// (key, value) pairs; blocking choices are ignored; floats compare by bits.
func Equal(a, b Datum) bool {
	switch x := a.(type) {
	case nil:
		return b == nil
	case bool:
		y, ok := b.(bool)
		return ok && x == y
	case int64:
		y, ok := b.(int64)
		return ok && x == y
	case float32:
		y, ok := b.(float32)
		return ok && math.Float32bits(x) == math.Float32bits(y)
	case float64:
		y, ok := b.(float64)
		return ok && math.Float64bits(x) == math.Float64bits(y)
	case []byte:
		y, ok := b.([]byte)
		return ok && string(x) == string(y)
	case string:
		y, ok := b.(string)
		return ok && x == y
	case *Arr:
		y, ok := b.(*Arr)
		if !ok || len(x.Items) != len(y.Items) {
			return false
		}
		for i := range x.Items {
			if !Equal(x.Items[i], y.Items[i]) {
				return false
			}
		}
		return true
	case *Map:
		y, ok := b.(*Map)
		if !ok || len(x.Keys) != len(y.Keys) {
			return false
		}
		used := make([]bool, len(y.Keys))
	outer:
		for i, k := range x.Keys {
			for j, k2 := range y.Keys {
				if !used[j] && k == k2 && Equal(x.Vals[i], y.Vals[j]) {
					used[j] = true
					continue outer
				}
			}
			return false
		}
		return true
	case *Union:
		y, ok := b.(*Union)
		return ok && x.Branch == y.Branch && Equal(x.Val, y.Val)
	case *Rec:
		y, ok := b.(*Rec)
		if !ok || len(x.Fields) != len(y.Fields) {
			return false
		}
		for i := range x.Fields {
			if !Equal(x.Fields[i], y.Fields[i]) {
				return false
			}
		}
		return true
	}
	return false
}
