// Package ref is an independent reference implementation of the parts of the
// Avro 1.8 specification the oracles need: schemas, the binary datum encoding
// (with every legal writer-side choice), and the object container format.
//
// It is written from the specification and MUST NOT import
// github.com/philpearl/avro: the oracles use it to know what a file contains
// without asking the code under test.
package ref

import (
	"fmt"
	"strconv"
	"strings"
)

// Schema is a tree describing an Avro schema.
type Schema struct {
	Kind     string // null boolean int long float double bytes string fixed record array map union
	Name     string // record / fixed
	Logical  string
	Fields   []Field   // record
	Items    *Schema   // array
	Values   *Schema   // map
	Size     int       // fixed
	Branches []*Schema // union
	// Hint is not part of the schema (never serialised): it tells the datum
	// generator what kind of content a string should carry ("time").
	Hint string
}

// Field is one field of a record schema.
type Field struct {
	Name string
	Type *Schema
}

func Prim(kind string) *Schema { return &Schema{Kind: kind} }

func Nullable(s *Schema) *Schema {
	return &Schema{Kind: "union", Branches: []*Schema{Prim("null"), s}}
}

func jsonString(s string) string { return strconv.Quote(s) }

// JSON renders the schema as Avro schema JSON.
func (s *Schema) JSON() string {
	var sb strings.Builder
	s.json(&sb)
	return sb.String()
}

func (s *Schema) json(sb *strings.Builder) {
	switch s.Kind {
	case "null", "boolean", "int", "long", "float", "double", "bytes", "string":
		if s.Logical != "" {
			fmt.Fprintf(sb, `{"type":%s,"logicalType":%s}`, jsonString(s.Kind), jsonString(s.Logical))
			return
		}
		sb.WriteString(jsonString(s.Kind))
	case "fixed":
		fmt.Fprintf(sb, `{"type":"fixed","name":%s,"size":%d}`, jsonString(s.Name), s.Size)
	case "record":
		fmt.Fprintf(sb, `{"type":"record","name":%s,"fields":[`, jsonString(s.Name))
		for i, f := range s.Fields {
			if i > 0 {
				sb.WriteByte(',')
			}
			fmt.Fprintf(sb, `{"name":%s,"type":`, jsonString(f.Name))
			f.Type.json(sb)
			sb.WriteByte('}')
		}
		sb.WriteString("]}")
	case "array":
		sb.WriteString(`{"type":"array","items":`)
		s.Items.json(sb)
		sb.WriteByte('}')
	case "map":
		sb.WriteString(`{"type":"map","values":`)
		s.Values.json(sb)
		sb.WriteByte('}')
	case "union":
		sb.WriteByte('[')
		for i, b := range s.Branches {
			if i > 0 {
				sb.WriteByte(',')
			}
			b.json(sb)
		}
		sb.WriteByte(']')
	default:
		panic("ref: unknown schema kind " + s.Kind)
	}
}

// SwapNull returns a copy of the schema in which every two-branch union with
// null first has null second instead.
func (s *Schema) SwapNull() *Schema {
	if s == nil {
		return nil
	}
	c := *s
	c.Items = s.Items.SwapNull()
	c.Values = s.Values.SwapNull()
	if s.Fields != nil {
		c.Fields = make([]Field, len(s.Fields))
		for i, f := range s.Fields {
			c.Fields[i] = Field{Name: f.Name, Type: f.Type.SwapNull()}
		}
	}
	if s.Branches != nil {
		c.Branches = make([]*Schema, len(s.Branches))
		for i, b := range s.Branches {
			c.Branches[i] = b.SwapNull()
		}
		if len(c.Branches) == 2 && c.Branches[0].Kind == "null" {
			c.Branches[0], c.Branches[1] = c.Branches[1], c.Branches[0]
		}
	}
	return &c
}

// NullBranch returns the index of the null branch of a union, or -1.
func (s *Schema) NullBranch() int {
	for i, b := range s.Branches {
		if b.Kind == "null" {
			return i
		}
	}
	return -1
}

// NonNullBranch returns the index of the first non-null branch, or -1.
func (s *Schema) NonNullBranch() int {
	for i, b := range s.Branches {
		if b.Kind != "null" {
			return i
		}
	}
	return -1
}
