// Command sim is the deterministic simulator for philpearl/avro: controller,
// worker and replay in one binary (see /verif/DESIGN.md).
package main

import (
	"fmt"
	"os"
	"strconv"
)

func usage() {
	fmt.Fprintln(os.Stderr, "usage: sim ctl <property> <quick|thorough> | worker <property> | replay <file> | selftest [property…] | genplan <property> <tier> <idx>")
	os.Exit(2)
}

func main() {
	if len(os.Args) < 2 {
		usage()
	}
	switch os.Args[1] {
	case "ctl":
		if len(os.Args) != 4 || (os.Args[3] != "quick" && os.Args[3] != "thorough") {
			usage()
		}
		os.Exit(ctlMain(os.Args[2], os.Args[3]))
	case "worker":
		if len(os.Args) != 3 {
			usage()
		}
		workerMain(os.Args[2])
	case "replay":
		if len(os.Args) != 3 {
			usage()
		}
		os.Exit(replayMain(os.Args[2]))
	case "selftest":
		os.Exit(selftestMain(os.Args[2:]))
	case "planop":
		if len(os.Args) != 5 {
			usage()
		}
		k, err := strconv.Atoi(os.Args[4])
		if err != nil {
			usage()
		}
		os.Exit(planOpMain(os.Args[2], os.Args[3], k))
	default:
		usage()
	}
}
