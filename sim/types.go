package main

import (
	"fmt"
	"io"
	"reflect"
	"sort"
	"time"

	"github.com/philpearl/avro"
	avronull "github.com/philpearl/avro/null"
	avrotime "github.com/philpearl/avro/time"
	"github.com/unravelin/null/v5"
)

// Curated record types. Each round-trips on the pinned tree; shapes that the
// property list itself names as broken (omitempty strings, nil *[]T, maps of
// nullable values, recursive types) are deliberately absent: they belong to
// properties this technique does not decide.

type Inner struct {
	A int64  `json:"a"`
	S string `json:"s"`
}

type Flat struct {
	B bool    `json:"b"`
	I int64   `json:"i"`
	J int32   `json:"j"`
	F float64 `json:"f"`
	G float32 `json:"g"`
	S string  `json:"s"`
	Y []byte  `json:"y"`
}

type Ptrs struct {
	PI *int64   `json:"pi"`
	PS *string  `json:"ps"`
	PR *Inner   `json:"pr"`
	PB *bool    `json:"pb"`
	PF *float64 `json:"pf"`
	PP **int64  `json:"pp"`
}

type Nested struct {
	ID  int64   `json:"id"`
	In  Inner   `json:"in"`
	PIn *Inner  `json:"pin"`
	L   []Inner `json:"l"`
	S   string  `json:"s"`
}

type Slices struct {
	LI []int64   `json:"li"`
	LS []string  `json:"ls"`
	LR []Inner   `json:"lr"`
	LP []*Inner  `json:"lp"`
	LL [][]int64 `json:"ll"`
	LY [][]byte  `json:"ly"`
}

type Maps struct {
	ID int64                       `json:"id"`
	M  map[string]int64            `json:"m"`
	MS map[string]string           `json:"ms"`
	MR map[string]Inner            `json:"mr"`
	MM map[string]map[string]int64 `json:"mm"`
	ML map[string][]int64          `json:"ml"`
}

// OneMap has at most one entry per map, so its encoding is reproducible.
type OneMap struct {
	ID int64            `json:"id"`
	M  map[string]int64 `json:"m" verif:"max1"`
	S  string           `json:"s"`
}

type Timed struct {
	ID int64      `json:"id"`
	T  time.Time  `json:"t"`
	PT *time.Time `json:"pt"`
	S  string     `json:"s"`
}

type Empty struct{}

type One struct {
	B bool `json:"b"`
}

type Padded struct {
	ID  int64  `json:"id"`
	Pad []byte `json:"pad"`
}

type Omit struct {
	I int64            `json:"i,omitempty"`
	F float64          `json:"f,omitempty"`
	Y []byte           `json:"y,omitempty"`
	L []int64          `json:"l,omitempty"`
	M map[string]int64 `json:"m,omitempty" verif:"max1"`
	B bool             `json:"b,omitempty"`
}

// PlainOmit has no pointers at all (no string, slice, map or pointer), only
// nullable scalars: a decoder that relies on the record memory being cleared
// between records shows here, where nothing else would re-initialise a field
// whose value is null.
type PlainOmit struct {
	A int64   `json:"a,omitempty"`
	B float64 `json:"b,omitempty"`
	C bool    `json:"c,omitempty"`
	D int32   `json:"d,omitempty"`
	E int64   `json:"e"`
}

// PtrSlices: slices and byte strings behind pointers (generated non-nil: a nil
// *[]T has no encoding in this library).
type PtrSlices struct {
	ID int64     `json:"id"`
	PL *[]int64  `json:"pl"`
	PS *[]string `json:"ps"`
	PR *[]Inner  `json:"pr"`
	S  string    `json:"s"`
}

// Nulls uses the null.* wrappers, whose codecs the library's null sub-package
// registers (nullable unions; strings and times go through the bank / the
// timestamp parser).
type Nulls struct {
	ID int64       `json:"id"`
	I  null.Int    `json:"i"`
	B  null.Bool   `json:"b"`
	F  null.Float  `json:"f"`
	S  null.String `json:"s"`
	T  null.Time   `json:"t"`
	Z  string      `json:"z"`
}

// NullPtrs: the null.* wrappers behind pointers and as map values (the
// positions in which their codecs' New is used). Pointees are generated valid
// (an invalid wrapper behind a non-nil pointer has no faithful encoding).
type NullPtrs struct {
	ID int64               `json:"id"`
	PI *null.Int           `json:"pi"`
	PS *null.String        `json:"ps"`
	PF *null.Float         `json:"pf"`
	PB *null.Bool          `json:"pb"`
	MI map[string]null.Int `json:"mi" verif:"max1"`
	Z  int64               `json:"z"`
}

// MapPtrs: maps whose values are nullable (pointers): each non-null entry is
// its own bank allocation and null entries must stay nil.
type MapPtrs struct {
	ID int64             `json:"id"`
	M  map[string]*int64 `json:"m"`
	MR map[string]*Inner `json:"mr"`
	S  string            `json:"s"`
}

type Mixed struct {
	ID int64             `json:"id"`
	S  string            `json:"s"`
	PS *string           `json:"ps"`
	L  []string          `json:"l"`
	In *Nested           `json:"in"`
	M  map[string]string `json:"m"`
	Y  []byte            `json:"y"`
	T  time.Time         `json:"t"`
}

// Narrow: every integer and float width the codec builders accept, side by
// side and in slices. A codec that stores more bytes than its target has
// spills into the neighbouring field, or past the end of the slice's backing
// array (defect D14: int16 targets were given the 32-bit codec).
type Narrow struct {
	A int16     `json:"a"`
	B int16     `json:"b"`
	C int32     `json:"c"`
	D int16     `json:"d"`
	E float32   `json:"e"`
	F int32     `json:"f"`
	G bool      `json:"g"`
	H int16     `json:"h"`
	L []int16   `json:"l"`
	M []int32   `json:"m"`
	N []float32 `json:"n"`
	P *int16    `json:"p"`
	Z int16     `json:"z"`
}

// Fixed can only be read (the library's encoder has no Go-array support); it
// is used with files produced by the reference writer.
type Fixed struct {
	ID int64    `json:"id"`
	F  [4]byte  `json:"f"`
	PF *[8]byte `json:"pf"`
	S  string   `json:"s"`
}

// EncHandle hides the generic Encoder[T] behind a reflect-friendly surface.
type EncHandle interface {
	Encode(v reflect.Value) error // v must be addressable and of the descriptor's type
	Flush() error
}

type encHandle[T any] struct{ e *avro.Encoder[T] }

func (h encHandle[T]) Encode(v reflect.Value) error { return h.e.Encode(v.Addr().Interface().(*T)) }
func (h encHandle[T]) Flush() error                 { return h.e.Flush() }

// TypeDesc describes one curated type.
type TypeDesc struct {
	Name    string
	Type    reflect.Type
	RefOnly bool // cannot be written by the library's encoder
	// HasMultiMap: may contain maps with more than one entry, so its encoding
	// is not byte-reproducible (map iteration order has no seam).
	HasMultiMap bool
	// GCOnly: a GC shape with Probe fields, used by C11 only.
	GCOnly bool
	NewEnc func(w io.Writer, c avro.Compression, blockSize int) (EncHandle, error)
}

func desc[T any](name string, refOnly, multiMap bool) *TypeDesc {
	return &TypeDesc{
		Name:        name,
		Type:        reflect.TypeFor[T](),
		RefOnly:     refOnly,
		HasMultiMap: multiMap,
		NewEnc: func(w io.Writer, c avro.Compression, bs int) (EncHandle, error) {
			e, err := avro.NewEncoderFor[T](w, c, bs)
			if err != nil {
				return nil, err
			}
			return encHandle[T]{e}, nil
		},
	}
}

var typeTable = map[string]*TypeDesc{}

func addType(d *TypeDesc) { typeTable[d.Name] = d }

func init() {
	avrotime.RegisterCodecs()
	avronull.RegisterCodecs()
	addType(desc[Flat]("Flat", false, false))
	addType(desc[Ptrs]("Ptrs", false, false))
	addType(desc[Nested]("Nested", false, false))
	addType(desc[Slices]("Slices", false, false))
	addType(desc[Maps]("Maps", false, true))
	addType(desc[OneMap]("OneMap", false, false))
	addType(desc[Timed]("Timed", false, false))
	addType(desc[Empty]("Empty", false, false))
	addType(desc[One]("One", false, false))
	addType(desc[Padded]("Padded", false, false))
	addType(desc[Omit]("Omit", false, false))
	addType(desc[PlainOmit]("PlainOmit", false, false))
	addType(desc[PtrSlices]("PtrSlices", false, false))
	addType(desc[Nulls]("Nulls", false, false))
	addType(desc[NullPtrs]("NullPtrs", false, false))
	addType(desc[MapPtrs]("MapPtrs", false, true))
	addType(desc[Mixed]("Mixed", false, true))
	addType(desc[Narrow]("Narrow", false, false))
	addType(desc[Fixed]("Fixed", true, false))
}

func typeByName(name string) *TypeDesc {
	d, ok := typeTable[name]
	if !ok {
		panic(fmt.Sprintf("unknown curated type %q", name))
	}
	return d
}

func typeNames(filter func(*TypeDesc) bool) []string {
	var out []string
	for n, d := range typeTable {
		if (filter == nil && !d.GCOnly) || (filter != nil && filter(d)) {
			out = append(out, n)
		}
	}
	sort.Strings(out)
	return out
}
