package main

import (
	"bufio"
	"bytes"
	"errors"
	"io"
	"io/fs"
	"strings"

	"github.com/philpearl/avro"
)

// SimDisk: the only "device" the code under test ever sees. A writer face
// (io.Writer) and a reader face (avro.Reader = io.Reader + io.ByteReader),
// both driven exclusively by values found in the plan.

// ErrInjected is the sentinel returned by injected write failures.
var ErrInjected = errors.New("simdisk: injected write failure")

// ErrReadIO is the sentinel returned by injected read failures.
var ErrReadIO = errors.New("simdisk: injected read failure")

// WFault describes a single writer-side fault.
type WFault struct {
	Kind  string `json:"kind"`  // "err" | "short" | "fullerr"
	K     int    `json:"k"`     // index of the Write call (0-based)
	Short int    `json:"short"` // for "short": accepted bytes = Short mod len(p) (Short<0: len-1)
	// Flavour: "" returns the bare sentinel; "patherror" returns a *fs.PathError
	// wrapping it, as a real file does (the caller must still find that exact
	// error value in the chain it gets back).
	Flavour string `json:"flavour,omitempty"`
	// Temp: "" | "temporary" | "timeout": the error value (inside the PathError,
	// if any) additionally has Temporary()/Timeout() methods answering true, as
	// EAGAIN, EINTR or a deadline error from a real descriptor do. Nothing in
	// the property exempts such errors: the call must still return them.
	Temp string `json:"temp,omitempty"`
}

// simNetErr is an injected error with the Temporary/Timeout methods of
// syscall.Errno and net.Error; it unwraps to the sentinel.
type simNetErr struct{ temporary, timeout bool }

func (e *simNetErr) Error() string {
	if e.timeout {
		return "simdisk: injected write failure (i/o timeout)"
	}
	return "simdisk: injected write failure (resource temporarily unavailable)"
}
func (e *simNetErr) Temporary() bool { return e.temporary }
func (e *simNetErr) Timeout() bool   { return e.timeout }
func (e *simNetErr) Unwrap() error   { return ErrInjected }

// DiskWriter records everything written to it.
type DiskWriter struct {
	Buf    []byte
	Writes int   // number of Write calls seen
	Lens   []int // length of each Write call
	Fault  *WFault
	Fired  bool
	// FiredAccepted is how many bytes the faulted write accepted.
	FiredAccepted int
	Yield         func(site string)
	// Injected is the exact error value the faulted call returned.
	Injected error
	// Flushes counts calls of Flush (FlushWriter only).
	Flushes int
}

func (w *DiskWriter) injected() error {
	var e error = ErrInjected
	if w.Fault != nil && w.Fault.Temp != "" {
		e = &simNetErr{temporary: w.Fault.Temp == "temporary", timeout: w.Fault.Temp == "timeout"}
	}
	if w.Fault != nil && w.Fault.Flavour == "patherror" {
		e = &fs.PathError{Op: "write", Path: "/sim/disk", Err: e}
	}
	w.Injected = e
	return w.Injected
}

// FlushWriter is a DiskWriter that also has a Flush method, like a buffered
// writer: code that decides to flush its destination must not lose that
// call's error either. Fault kind "flusherr" fails the K-th Flush call.
type FlushWriter struct{ *DiskWriter }

func (f FlushWriter) Flush() error {
	k := f.Flushes
	f.DiskWriter.Flushes++
	if f.Fault != nil && !f.Fired && f.Fault.Kind == "flusherr" && f.Fault.K == k {
		f.DiskWriter.Fired = true
		return f.injected()
	}
	return nil
}

func (w *DiskWriter) Write(p []byte) (int, error) {
	if w.Yield != nil {
		w.Yield("disk.write")
	}
	k := w.Writes
	w.Writes++
	w.Lens = append(w.Lens, len(p))
	if w.Fault != nil && !w.Fired && w.Fault.K == k && w.Fault.Kind != "flusherr" {
		w.Fired = true
		switch w.Fault.Kind {
		case "err":
			return 0, w.injected()
		case "fullerr":
			// the device took every byte and still reports failure (legal for an io.Writer)
			w.Buf = append(w.Buf, p...)
			w.FiredAccepted = len(p)
			return len(p), w.injected()
		case "short":
			n := 0
			if len(p) > 0 {
				if w.Fault.Short < 0 {
					n = len(p) - 1
				} else {
					n = w.Fault.Short % len(p)
				}
			}
			w.Buf = append(w.Buf, p[:n]...)
			w.FiredAccepted = n
			return n, w.injected()
		}
	}
	w.Buf = append(w.Buf, p...)
	return len(p), nil
}

// ChunkSpec fixes how the reader hands bytes over. All legal io.Reader
// behaviour; always on.
type ChunkSpec struct {
	Sizes   []int `json:"sizes"`    // cycled: maximum bytes returned by the i-th Read
	EOFWith bool  `json:"eof_with"` // return (n>0, io.EOF) on the read that drains the data
	ZeroAt  int   `json:"zero_at"`  // every ZeroAt-th Read returns (0, nil) once (0 = never)
	// Kind selects the concrete reader type handed to the library: "" = SimDisk
	// reader; "bufio" = bufio.Reader over the SimDisk reader; "bytes.Buffer",
	// "bytes.Reader", "strings.Reader" = the standard in-memory readers a real
	// caller would use (a reader-type-specific fast path in the library must
	// not change what a truncated or damaged stream yields).
	Kind string `json:"kind,omitempty"`
	// OutPtr: the caller passes ReadFile a pointer to its own struct (records are
	// decoded in place) instead of a struct value.
	OutPtr bool `json:"out_ptr,omitempty"`
	// Project: which struct the caller reads into: 0 the full type; 1 every
	// second field dropped (skip paths); 2 fields in reverse order plus a field
	// the file does not have; 3 a struct with no fields (everything skipped).
	Project int `json:"project,omitempty"`
}

// openReader builds the reader a ChunkSpec describes over data.
func openReader(data []byte, c ChunkSpec) avro.Reader {
	switch c.Kind {
	case "bytes.Buffer":
		return bytes.NewBuffer(append([]byte{}, data...))
	case "bytes.Reader":
		return bytes.NewReader(data)
	case "strings.Reader":
		return strings.NewReader(string(data))
	case "bufio":
		return bufio.NewReaderSize(NewDiskReader(data, c), 16)
	}
	return NewDiskReader(data, c)
}

func genChunks(r *Rng) ChunkSpec {
	var c ChunkSpec
	switch r.Intn(5) {
	case 0:
		c.Sizes = []int{1}
	case 1:
		c.Sizes = []int{1 << 20}
	case 2:
		c.Sizes = r.Ints(r.Range(1, 6), 1, 7)
	case 3:
		c.Sizes = r.Ints(r.Range(1, 6), 1, 300)
	default:
		c.Sizes = []int{r.Range(2, 64)}
	}
	c.EOFWith = r.P(1, 3)
	if r.P(1, 4) {
		c.ZeroAt = r.Range(2, 9)
	}
	if r.P(2, 5) {
		c.Kind = r.Pick([]string{"bytes.Buffer", "bytes.Reader", "strings.Reader", "bufio"})
	}
	c.OutPtr = r.P(1, 3)
	if r.P(1, 4) {
		c.Project = r.Range(1, 3)
	}
	return c
}

func (c ChunkSpec) class() string {
	if c.Kind != "" && c.Kind != "bufio" {
		return c.Kind
	}
	if c.Kind == "bufio" {
		return "bufio+" + ChunkSpec{Sizes: c.Sizes}.class()
	}
	if len(c.Sizes) == 1 && c.Sizes[0] == 1 {
		return "1byte"
	}
	if len(c.Sizes) == 1 && c.Sizes[0] >= 1<<20 {
		return "whole"
	}
	max := 0
	for _, s := range c.Sizes {
		if s > max {
			max = s
		}
	}
	if max <= 8 {
		return "tiny"
	}
	return "mixed"
}

// DiskReader serves a byte string with plan-chosen chunking and faults.
type DiskReader struct {
	Data   []byte
	Pos    int
	Chunks ChunkSpec
	Reads  int // Read + ReadByte calls
	nRead  int // Read calls only (indexes Chunks)
	// ErrAt: the k-th call (Read or ReadByte, 0-based) fails with ErrReadIO; -1 = never.
	ErrAt    int
	ErrFired bool
	zeroDone map[int]bool
	Yield    func(site string)
}

func NewDiskReader(data []byte, c ChunkSpec) *DiskReader {
	if len(c.Sizes) == 0 {
		c.Sizes = []int{1 << 20}
	}
	return &DiskReader{Data: data, Chunks: c, ErrAt: -1}
}

func (d *DiskReader) Read(p []byte) (int, error) {
	if d.Yield != nil {
		d.Yield("disk.read")
	}
	k := d.Reads
	d.Reads++
	if d.ErrAt == k {
		d.ErrFired = true
		return 0, ErrReadIO
	}
	i := d.nRead
	d.nRead++
	if len(p) == 0 {
		return 0, nil
	}
	if d.Pos >= len(d.Data) {
		return 0, io.EOF
	}
	if d.Chunks.ZeroAt > 0 && i > 0 && i%d.Chunks.ZeroAt == 0 {
		if d.zeroDone == nil {
			d.zeroDone = map[int]bool{}
		}
		if !d.zeroDone[i] {
			d.zeroDone[i] = true
			return 0, nil
		}
	}
	n := d.Chunks.Sizes[i%len(d.Chunks.Sizes)]
	if n < 1 {
		n = 1
	}
	if n > len(p) {
		n = len(p)
	}
	if n > len(d.Data)-d.Pos {
		n = len(d.Data) - d.Pos
	}
	copy(p, d.Data[d.Pos:d.Pos+n])
	d.Pos += n
	if d.Pos == len(d.Data) && d.Chunks.EOFWith {
		return n, io.EOF
	}
	return n, nil
}

func (d *DiskReader) ReadByte() (byte, error) {
	if d.Yield != nil {
		d.Yield("disk.readbyte")
	}
	k := d.Reads
	d.Reads++
	if d.ErrAt == k {
		d.ErrFired = true
		return 0, ErrReadIO
	}
	if d.Pos >= len(d.Data) {
		return 0, io.EOF
	}
	b := d.Data[d.Pos]
	d.Pos++
	return b, nil
}
