package main

import (
	"crypto/sha256"
	"encoding/hex"
	"errors"
	"fmt"
	"io"
	"os"
	"reflect"
	"runtime"
	"strings"
	"sync"
	"sync/atomic"
	"time"
	"unsafe"

	"github.com/philpearl/avro"
	avrotime "github.com/philpearl/avro/time"

	"verif/sim/ref"
)

// C12 — concurrent independent use is race-free and result-equivalent.
//
// Real goroutines, one released at a time by a token scheduler whose own
// synchronisation is INVISIBLE to the Go race detector: park/yield/finish/pick
// are //go:norace functions spinning on a plain word with runtime.Gosched,
// touching only preallocated plain memory and taking every decision from the
// plan's pre-drawn schedule. The interleaving is therefore a deterministic
// function of the plan, while the detector sees only the library's own
// synchronisation — so two conflicting accesses the library does not order are
// reported even though the scheduler kept them physically apart.

type C12Op struct {
	Op string `json:"op"` // build register decode encode readfile closebanks schema parsetime encoder
	A  int    `json:"a"`
	B  int    `json:"b"`
}

type C12Plan struct {
	Ops      [][]C12Op `json:"ops"`      // per goroutine
	Schedule []int32   `json:"schedule"` // k-th scheduling decision, modulo #runnable
	Pool     []int32   `json:"pool"`     // k-th bank request: -1 fresh, else index into free list (mod), 1<<30 newest
	VSeed    uint64    `json:"vseed"`
	// Burst > 0: SUPPLEMENT outside the deterministic simulation. All
	// goroutines are released at once on several OS threads (no token
	// scheduler, real sync.Pool) and repeat their lists Burst times; only the
	// result-equivalence oracle and the race detector judge. It exists for
	// atomicity violations between two instructions with no yield point and no
	// data race (e.g. an unlocked load-modify-store of an atomic pointer),
	// which the token scheduler cannot interleave. Not replayable exactly:
	// the replay command retries.
	Burst int `json:"burst,omitempty"`
}

type c12Prop struct{}

func init() { register(c12Prop{}) }

func (c12Prop) ID() string    { return "C12" }
func (c12Prop) Level() string { return "exploration" }
func (c12Prop) Race() bool    { return true }

func (c12Prop) Count(tier string) int {
	if tier == "thorough" {
		return 250000
	}
	return 1500
}

func (c12Prop) Rule() string {
	return "plan = 2..6 goroutines, each a seeded list of independent operations {build a codec, Register+RegisterSchema a type the goroutine owns (versioned builder), decode with a SHARED codec into a private target, encode with a shared codec into a private buffer, ReadFile a whole file, write a file with an Encoder, close banks received from another goroutine, SchemaForType, parse timestamps with seeded zone offsets}, the pre-drawn schedule (k-th decision modulo #runnable) and the simulated pool's choices. One execution = the concurrent phase under the token scheduler with the race detector as judge, followed by each goroutine's list re-executed alone for the result-equivalence oracle. " +
		"distinct_nontrivial counts distinct interleavings (hash of the executed (goroutine, yield-site) sequence) in which >= 2 goroutines passed through the same shared structure (registry, schema registry, bank pool, tz cache)."
}

func (c12Prop) Assumptions() []string {
	return []string{
		"the Go race detector (go1.24.0, -race) is the judge of 'free of data races'; its known limits apply (bounded shadow history per word; one report per distinct stack pair per process)",
		"the token scheduler and the simulated pool bookkeeping are //go:norace and add no happens-before edge; the simulated pool adds exactly the one edge sync.Pool promises (Put(x) synchronises-before the Get that returns x), implemented as a per-bank atomic release/acquire",
		"banks handed to another goroutine for closing travel over a real channel, as in a real program",
		"independent = no two goroutines register the same type in one run, and a goroutine only builds types whose registrations are its own or pre-date the run",
	}
}

var c12Types = []string{"Flat", "Nested", "Ptrs", "Slices", "OneMap", "Timed", "Padded", "Omit", "Nulls", "PtrSlices", "NullPtrs", "Narrow"}

var c12OpNames = []string{"build", "build", "register", "register", "decode", "decode", "decodeproj", "decodeproj", "encode", "encode", "readfile", "readfile", "closebanks", "schema", "fromstring", "decoderef", "decoderef", "parsetime", "parsetime", "encoder", "regshared", "regshared", "decodebad", "decodebad", "timelong", "timelong", "deepschema", "bankchurn", "unions", "unions"}

func (c12Prop) Generate(seed uint64, idx int, tier string) *Plan {
	r := NewRng(seed, uint64(idx)<<8|0x12)
	pl := &C12Plan{VSeed: r.Uint64()}
	ng := r.Range(2, 6)
	// Swarm: every lock release/acquire pair and every recycled bank adds a
	// (legitimate) happens-before edge between goroutines, and enough of them
	// order everything. Half of the plans therefore use only a small random
	// subset of operation kinds, and a third never recycle a bank, so that
	// unsynchronised accesses to shared codec state stay unordered.
	names := c12OpNames
	if r.P(1, 2) {
		k := r.Range(1, 4)
		names = nil
		for i := 0; i < k; i++ {
			names = append(names, r.Pick(c12OpNames))
		}
	}
	for g := 0; g < ng; g++ {
		n := r.Range(2, 10)
		var ops []C12Op
		for i := 0; i < n; i++ {
			ops = append(ops, C12Op{Op: r.Pick(names), A: r.Intn(1 << 12), B: r.Intn(1 << 12)})
		}
		pl.Ops = append(pl.Ops, ops)
	}
	freshOnly := r.P(1, 3)
	if r.P(1, 8) {
		// parallel burst (see C12Plan.Burst): few operation kinds, many repeats
		pl.Burst = r.PickInt([]int{30, 100})
		kinds := [][]string{{"register"}, {"parsetime"}, {"register", "build"}, {"parsetime", "encode"}, {"register", "parsetime"}, {"build", "schema"}, {"decode", "decodeproj"}, {"regshared"}, {"regshared", "build"}, {"decodebad"}, {"decodebad", "decode"}, {"timelong"}, {"timelong", "parsetime"}, {"deepschema"}, {"deepschema", "fromstring"}, {"fromstring"}, {"bankchurn"}, {"bankchurn"}, {"bankchurn", "decode"}, {"unions"}}[r.Intn(20)]
		if kinds[0] == "parsetime" {
			pl.Burst = r.PickInt([]int{1000, 5000}) // a timestamp parse costs about a microsecond
		}
		pl.Ops = nil
		ng = r.Range(4, 6)
		for g := 0; g < ng; g++ {
			var ops []C12Op
			for i := r.Range(2, 5); i > 0; i-- {
				ops = append(ops, C12Op{Op: r.Pick(kinds), A: r.Intn(1 << 12), B: r.Intn(1 << 12)})
			}
			pl.Ops = append(pl.Ops, ops)
		}
	}
	ns := r.Range(8, 64)
	switch r.Intn(4) {
	case 0: // long runs of the same goroutine
		for i := 0; i < ns; i++ {
			v := int32(r.Intn(6))
			for k := r.Range(1, 6); k > 0; k-- {
				pl.Schedule = append(pl.Schedule, v)
			}
		}
	default:
		for i := 0; i < ns; i++ {
			pl.Schedule = append(pl.Schedule, int32(r.Intn(720)))
		}
	}
	np := r.Range(2, 24)
	for i := 0; i < np; i++ {
		if freshOnly {
			pl.Pool = append(pl.Pool, -1)
			continue
		}
		switch r.Intn(4) {
		case 0:
			pl.Pool = append(pl.Pool, -1)
		case 1:
			pl.Pool = append(pl.Pool, 1<<30)
		default:
			pl.Pool = append(pl.Pool, int32(r.Intn(1<<10)))
		}
	}
	return &Plan{Prop: "C12", Seed: seed, Idx: idx, Tier: tier, C12: pl}
}

// ---------------------------------------------------------------------------
// Token scheduler (invisible to the race detector)

const c12MaxG = 8

type tokenSched struct {
	turn    int32 // goroutine allowed to run; -1 = nobody (sequential phases)
	n       int32
	done    [c12MaxG]int32
	choices []int32
	k       int32
	trace   []uint32 // g<<16 | site
	tn      int32
	steps   int32
}

var curSched *tokenSched

//go:norace
func (s *tokenSched) park(id int32) {
	for s.turn != id {
		runtime.Gosched()
	}
}

//go:norace
func (s *tokenSched) pick() int32 {
	alive := int32(0)
	for i := int32(0); i < s.n; i++ {
		if s.done[i] == 0 {
			alive++
		}
	}
	if alive == 0 {
		return -1
	}
	c := int32(0)
	if len(s.choices) > 0 {
		c = s.choices[int(s.k)%len(s.choices)]
		s.k++
	}
	if c < 0 {
		c = -c
	}
	idx := c % alive
	for i := int32(0); i < s.n; i++ {
		if s.done[i] == 0 {
			if idx == 0 {
				return i
			}
			idx--
		}
	}
	return -1
}

//go:norace
func (s *tokenSched) yield(site uint32) {
	cur := s.turn
	if cur < 0 {
		return // sequential phase
	}
	s.steps++
	if int(s.tn) < len(s.trace) {
		s.trace[s.tn] = uint32(cur)<<16 | site
		s.tn++
	}
	next := s.pick()
	s.turn = next // the LAST store of the scheduler's bookkeeping
	if next != cur {
		s.park(cur)
	}
}

//go:norace
func (s *tokenSched) finish(id int32) {
	s.done[id] = 1
	if int(s.tn) < len(s.trace) {
		s.trace[s.tn] = uint32(id)<<16 | siteDone
		s.tn++
	}
	s.turn = s.pick()
}

const (
	siteOther uint32 = iota
	siteRegW
	siteRegR
	siteSchemaW
	siteSchemaR
	siteTz
	siteDiskRead
	siteDiskReadByte
	siteDiskWrite
	siteCallback
	siteOp
	sitePoolGet
	sitePoolPut
	siteDone
)

var siteNames = []string{"other", "registry.write", "registry.read", "schemaregistry.write", "schemaregistry.read", "tzcache", "disk.read", "disk.readbyte", "disk.write", "callback", "op", "pool.get", "pool.put", "done"}

//go:norace
func siteIdx(site string) uint32 {
	switch site {
	case "registry.write":
		return siteRegW
	case "registry.read":
		return siteRegR
	case "schemaregistry.write":
		return siteSchemaW
	case "schemaregistry.read":
		return siteSchemaR
	case "tzcache":
		return siteTz
	case "disk.read":
		return siteDiskRead
	case "disk.readbyte":
		return siteDiskReadByte
	case "disk.write":
		return siteDiskWrite
	case "callback":
		return siteCallback
	case "op":
		return siteOp
	}
	return siteOther
}

//go:norace
func c12Yield(site string) {
	if s := curSched; s != nil {
		s.yield(siteIdx(site))
	}
}

// ---------------------------------------------------------------------------
// Simulated bank pool for the race build: bookkeeping invisible, one
// release/acquire edge per bank hand-over.

const racePoolSlots = 8192

type raceSlot struct {
	rb    *avro.ResourceBank
	flag  int32
	free  bool
	owner int32
	seq   int32
}

type racePool struct {
	slots    [racePoolSlots]raceSlot
	n        int32
	choices  []int32
	k        int32
	seq      int32
	gets     int32
	recycled int32
	crossed  int32
	overflow int32
	double   int32
}

var curRacePool *racePool

//go:norace
func racePoolGet() *avro.ResourceBank {
	p := curRacePool
	if p == nil {
		return nil
	}
	p.gets++
	c := int32(-1)
	if len(p.choices) > 0 {
		c = p.choices[int(p.k)%len(p.choices)]
		p.k++
	}
	nfree := int32(0)
	for i := int32(0); i < p.n; i++ {
		if p.slots[i].free {
			nfree++
		}
	}
	pick := int32(-1)
	if c >= 0 && nfree > 0 {
		// order free slots by the sequence number of their Put
		want := c % nfree
		if c >= 1<<30 {
			want = nfree - 1
		}
		// selection by rank of seq
		for i := int32(0); i < p.n; i++ {
			if !p.slots[i].free {
				continue
			}
			rank := int32(0)
			for j := int32(0); j < p.n; j++ {
				if p.slots[j].free && p.slots[j].seq < p.slots[i].seq {
					rank++
				}
			}
			if rank == want {
				pick = i
				break
			}
		}
	}
	if pick < 0 {
		if p.n >= racePoolSlots {
			p.overflow++
			return new(avro.ResourceBank)
		}
		rb := new(avro.ResourceBank)
		p.slots[p.n] = raceSlot{rb: rb, owner: -2}
		p.n++
		return rb
	}
	sl := &p.slots[pick]
	sl.free = false
	p.recycled++
	cur := int32(-1)
	if s := curSched; s != nil {
		cur = s.turn
	}
	if sl.owner != cur {
		p.crossed++
	}
	// acquire: pairs with the release in racePoolPut for this bank
	atomic.LoadInt32(&sl.flag)
	return sl.rb
}

//go:norace
func racePoolPut(rb *avro.ResourceBank) bool {
	p := curRacePool
	if p == nil {
		return false
	}
	idx := int32(-1)
	for i := int32(0); i < p.n; i++ {
		if p.slots[i].rb == rb {
			idx = i
			break
		}
	}
	if idx < 0 {
		if p.n >= racePoolSlots {
			p.overflow++
			return true // dropped, as sync.Pool may
		}
		idx = p.n
		p.slots[idx] = raceSlot{rb: rb}
		p.n++
	}
	sl := &p.slots[idx]
	if sl.free {
		p.double++
		return true
	}
	cur := int32(-1)
	if s := curSched; s != nil {
		cur = s.turn
	}
	sl.owner = cur
	p.seq++
	sl.seq = p.seq
	sl.free = true
	// release: everything the closing goroutine did to the bank happens-before
	// the Get that returns it
	atomic.StoreInt32(&sl.flag, 1)
	return true
}

// ---------------------------------------------------------------------------
// Workload

type RegT0 int64
type RegT1 int64
type RegT2 int64
type RegT3 int64
type RegT4 int64
type RegT5 int64

type regHolder0 struct {
	X RegT0 `json:"x"`
	Y int64 `json:"y"`
}
type regHolder1 struct {
	X RegT1 `json:"x"`
	Y int64 `json:"y"`
}
type regHolder2 struct {
	X RegT2 `json:"x"`
	Y int64 `json:"y"`
}
type regHolder3 struct {
	X RegT3 `json:"x"`
	Y int64 `json:"y"`
}
type regHolder4 struct {
	X RegT4 `json:"x"`
	Y int64 `json:"y"`
}
type regHolder5 struct {
	X RegT5 `json:"x"`
	Y int64 `json:"y"`
}

// Shared registered types: their schemas are put into the schema registry once
// per plan, before the goroutines start, and every goroutine may then derive
// the schema of a struct holding them ("regshared"). The registered values are
// composite (a union's branch slice, a record's field list), so whatever
// SchemaForType hands out shares memory with the registry entry.
type SharedLevel int64
type SharedRec struct {
	A int64  `json:"a"`
	B string `json:"b"`
}
type SharedHolder struct {
	ID    int64       `json:"id"`
	Level SharedLevel `json:"level"`
	Rec   SharedRec   `json:"rec"`
	Recs  []SharedRec `json:"recs"`
}

func registerShared() error {
	avro.RegisterSchema(reflect.TypeFor[SharedLevel](), avro.Schema{
		Type:  "union",
		Union: []avro.Schema{{Type: "long"}, {Type: "null"}},
	})
	rs := avro.Schema{Type: "record", Object: &avro.SchemaObject{Type: "record", Name: "SharedRec", Fields: []avro.SchemaRecordField{
		{Name: "a", Type: avro.Schema{Type: "union", Union: []avro.Schema{{Type: "long"}, {Type: "null"}}}},
		{Name: "b", Type: avro.Schema{Type: "union", Union: []avro.Schema{{Type: "null"}, {Type: "string"}}}},
	}}}
	avro.RegisterSchema(reflect.TypeFor[SharedRec](), rs)
	return nil
}

var regTypes = []reflect.Type{reflect.TypeFor[RegT0](), reflect.TypeFor[RegT1](), reflect.TypeFor[RegT2](), reflect.TypeFor[RegT3](), reflect.TypeFor[RegT4](), reflect.TypeFor[RegT5]()}
var regHolders = []reflect.Type{reflect.TypeFor[regHolder0](), reflect.TypeFor[regHolder1](), reflect.TypeFor[regHolder2](), reflect.TypeFor[regHolder3](), reflect.TypeFor[regHolder4](), reflect.TypeFor[regHolder5]()}

// regCodec is the versioned custom codec: it stores value+ver.
type regCodec struct {
	avro.Int64Codec
	ver int64
}

func (c regCodec) Read(r *avro.ReadBuf, p unsafe.Pointer) error {
	if err := c.Int64Codec.Read(r, p); err != nil {
		return err
	}
	*(*int64)(p) -= c.ver
	return nil
}

func (c regCodec) Write(w *avro.WriteBuf, p unsafe.Pointer) {
	v := *(*int64)(p) + c.ver
	c.Int64Codec.Write(w, unsafe.Pointer(&v))
}

// TimeLongs: times carried as long/int under the logical types the time codec
// accepts (each logical type has its own scale).
type TimeLongs struct {
	A time.Time  `json:"a"`
	B time.Time  `json:"b"`
	C time.Time  `json:"c"`
	D time.Time  `json:"d"`
	E *time.Time `json:"e"`
}

// Unions: the general union codec (any union that is not "null and one other").
type Unions struct {
	U int64  `json:"u"`
	V *int64 `json:"v"`
	W int64  `json:"w"`
}

const unionsSchema = `{"type":"record","name":"UN","fields":[` +
	`{"name":"u","type":["long","int"]},` +
	`{"name":"v","type":["null","long","int"]},` +
	`{"name":"w","type":["int","long","int"]}]}`

const timeLongsSchema = `{"type":"record","name":"TL","fields":[` +
	`{"name":"a","type":{"type":"long","logicalType":"timestamp-micros"}},` +
	`{"name":"b","type":{"type":"long","logicalType":"timestamp-millis"}},` +
	`{"name":"c","type":"long"},` +
	`{"name":"d","type":{"type":"int","logicalType":"date"}},` +
	`{"name":"e","type":["null",{"type":"long","logicalType":"timestamp-millis"}]}]}`

var int64Type = reflect.TypeFor[int64]()

type TimeOnly struct {
	T time.Time `json:"t"`
}

// c12Env is shared, read-only during the concurrent phase (created by the
// main goroutine before the workers start).
type c12Env struct {
	types       []*TypeDesc
	codecs      []avro.Codec // shared codec per type
	pcodecs     []avro.Codec // shared codec per type for a projected target (skip paths)
	ptypes      []reflect.Type
	ecodecs     []avro.Codec   // shared codec per type for an empty target (everything skipped)
	schemaJS    []string       // schema JSON per type
	refTypes    []reflect.Type // reference-writer encodings decoded with SHARED codecs built from reference schema text
	refCodecs   []avro.Codec
	refPayloads [][][]byte
	values      [][]reflect.Value // shared values per type
	payloads    [][][]byte        // per type: own encoding of each value
	files       [][]byte          // prebuilt container files (one per type)
	ftypes      []reflect.Type    // target type per file
	chunks      []ChunkSpec       // per goroutine
	timeC       avro.Codec        // shared codec for TimeOnly
	timeLongC   avro.Codec        // shared codec for TimeLongs
	unionsC     avro.Codec        // shared codec for Unions
	chans       []chan *avro.ResourceBank
	ng          int
}

type c12Result struct {
	res []string
}

func hashBytes(b []byte) string {
	h := sha256.Sum256(b)
	return hex.EncodeToString(h[:6])
}

func describeAll(vs []reflect.Value) string {
	var sb strings.Builder
	for _, v := range vs {
		fmt.Fprintf(&sb, "%+v;", describeIface(v))
	}
	return fmt.Sprintf("n=%d %s", len(vs), hashBytes([]byte(sb.String())))
}

// maskedFile renders a container file without its sync markers.
func maskedFile(b []byte) string {
	c, err := ref.ParseContainer(b)
	if err != nil {
		return "unparseable:" + err.Error()
	}
	h := sha256.New()
	for _, m := range c.Meta {
		h.Write([]byte(m.Key))
		h.Write(m.Val)
	}
	for _, bl := range c.Blocks {
		fmt.Fprintf(h, "|%d|%d|", bl.Count, bl.Size)
		h.Write(b[bl.PayloadOff:bl.PayloadEnd])
	}
	return fmt.Sprintf("blocks=%d %s", len(c.Blocks), hex.EncodeToString(h.Sum(nil)[:6]))
}

// execOp runs one operation of goroutine g. alone = sequential re-execution.
func (env *c12Env) execOp(g int, op C12Op, alone bool) (res string) {
	defer func() {
		if r := recover(); r != nil {
			res = fmt.Sprintf("PANIC at %s: %v", panicSite(), r)
		}
	}()
	ti := op.A % len(env.types)
	d := env.types[ti]
	switch op.Op {
	case "build":
		zero := reflect.New(d.Type).Elem().Interface()
		s, err := avro.SchemaForType(zero)
		if err != nil {
			return "schema err: " + err.Error()
		}
		c, err := s.Codec(zero)
		if err != nil {
			return "codec err: " + err.Error()
		}
		v := env.values[ti][op.B%len(env.values[ti])]
		return "built " + hashBytes(ownEncoding(c, v))
	case "register":
		ver := int64(op.B%5) + 1
		avro.Register(regTypes[g], func(schema avro.Schema, typ reflect.Type, omit bool) (avro.Codec, error) {
			return regCodec{ver: ver}, nil
		})
		avro.RegisterSchema(regTypes[g], avro.Schema{Type: "long"})
		hz := reflect.New(regHolders[g]).Elem()
		s, err := avro.SchemaForType(hz.Interface())
		if err != nil {
			return "schema err: " + err.Error()
		}
		c, err := s.Codec(hz.Interface())
		if err != nil {
			return "codec err: " + err.Error()
		}
		hz.Field(0).SetInt(100)
		hz.Field(1).SetInt(7)
		enc := ownEncoding(c, hz)
		back := reflect.New(regHolders[g]).Elem()
		rb := avro.NewReadBuf(enc)
		err = c.Read(rb, back.Addr().UnsafePointer())
		rb.ExtractResourceBank().Close()
		js, _ := s.Marshal()
		return fmt.Sprintf("registered v%d enc=%x back=%+v err=%v schema=%s", ver, enc, back.Interface(), err, hashBytes(js))
	case "decode":
		vi := op.B % len(env.payloads[ti])
		out := reflect.New(d.Type).Elem()
		rb := avro.NewReadBuf(env.payloads[ti][vi])
		err := env.codecs[ti].Read(rb, out.Addr().UnsafePointer())
		s := fmt.Sprintf("decoded err=%v %s", err, describeAll([]reflect.Value{out}))
		rb.ExtractResourceBank().Close()
		return s
	case "decodebad":
		// a shared codec meets a torn record: the error it returns is this
		// goroutine's own, and stays what it was while others fail too
		vi := op.B % len(env.payloads[ti])
		pay := env.payloads[ti][vi]
		cut := pay[:(op.B/7)%max(len(pay), 1)]
		out := reflect.New(d.Type).Elem()
		rb := avro.NewReadBuf(cut)
		err := env.codecs[ti].Read(rb, out.Addr().UnsafePointer())
		first := errString(err)
		rb.ExtractResourceBank().Close()
		rb2 := avro.NewReadBuf(cut)
		err2 := env.ecodecs[ti].Read(rb2, unsafe.Pointer(&Empty{}))
		rb2.ExtractResourceBank().Close()
		return fmt.Sprintf("decodebad cut=%d/%d err=%s later=%s skip-err=%s eof=%v", len(cut), len(pay), first, errString(err), errString(err2), errors.Is(err, io.EOF) || errors.Is(err, io.ErrUnexpectedEOF))
	case "decodeproj":
		// shared codecs whose target lacks fields: the skip paths of a shared codec
		vi := op.B % len(env.payloads[ti])
		c, t := env.pcodecs[ti], env.ptypes[ti]
		if op.B%3 == 0 {
			c, t = env.ecodecs[ti], reflect.TypeFor[Empty]()
		}
		out := reflect.New(t).Elem()
		rb := avro.NewReadBuf(env.payloads[ti][vi])
		err := c.Read(rb, out.Addr().UnsafePointer())
		s := fmt.Sprintf("decodedproj err=%v left=%d %s", err, rb.Len(), describeAll([]reflect.Value{out}))
		rb.ExtractResourceBank().Close()
		return s
	case "encode":
		vi := op.B % len(env.values[ti])
		return "encoded " + hashBytes(ownEncoding(env.codecs[ti], env.values[ti][vi]))
	case "readfile":
		fi := op.A % len(env.files)
		rd := NewDiskReader(env.files[fi], env.chunks[g%len(env.chunks)])
		rd.Yield = c12Yield
		target := env.ftypes[fi]
		var got []reflect.Value
		k := 0
		failAt := -1
		if op.B%5 == 0 {
			failAt = op.A % 3 // the callback closes its bank and then fails, as a consumer that gives up would
		}
		err := avro.ReadFile(rd, reflect.New(target).Elem().Interface(), func(val unsafe.Pointer, rb *avro.ResourceBank) error {
			got = append(got, DeepCopy(reflect.NewAt(target, val).Elem()))
			if k == failAt {
				rb.Close()
				return errCallback
			}
			k++
			if !alone && (k+op.B)%2 == 0 {
				// hand the bank to another goroutine for closing
				select {
				case env.chans[(g+1)%env.ng] <- rb:
				default:
					rb.Close()
				}
			} else {
				rb.Close()
			}
			c12Yield("callback")
			return nil
		})
		return fmt.Sprintf("readfile err=%v %s", err, describeAll(got))
	case "closebanks":
		for {
			select {
			case rb := <-env.chans[g]:
				rb.Close()
				continue
			default:
			}
			break
		}
		return "closed"
	case "decoderef":
		ri := op.A % len(env.refTypes)
		pi := op.B % len(env.refPayloads[ri])
		out := reflect.New(env.refTypes[ri]).Elem()
		rb := avro.NewReadBuf(env.refPayloads[ri][pi])
		err := env.refCodecs[ri].Read(rb, out.Addr().UnsafePointer())
		s := fmt.Sprintf("decodedref err=%v left=%d %s", err, rb.Len(), describeAll([]reflect.Value{out}))
		rb.ExtractResourceBank().Close()
		return s
	case "fromstring":
		// parse schema text, build a codec from it and use it: the caller-supplied-schema path
		s, err := avro.SchemaFromString(env.schemaJS[ti])
		if err != nil {
			return "fromstring err: " + err.Error()
		}
		c, err := s.Codec(reflect.New(d.Type).Elem().Interface())
		if err != nil {
			return "fromstring codec err: " + err.Error()
		}
		v := env.values[ti][op.B%len(env.values[ti])]
		return "fromstring " + hashBytes(ownEncoding(c, v))
	case "regshared":
		s, err := avro.SchemaForType(SharedHolder{})
		if err != nil {
			return "regshared schema err: " + err.Error()
		}
		js, err := s.Marshal()
		if err != nil {
			return "regshared marshal err: " + err.Error()
		}
		c, err := s.Codec(SharedHolder{})
		if err != nil {
			return "regshared codec err: " + err.Error() + " schema=" + string(js)
		}
		v := SharedHolder{ID: int64(op.A), Level: SharedLevel(op.B % 9), Rec: SharedRec{A: int64(op.B), B: fmt.Sprint("s", op.A%5)}}
		for i := 0; i < op.B%3; i++ {
			v.Recs = append(v.Recs, SharedRec{A: int64(i + op.A), B: fmt.Sprint("r", i)})
		}
		enc := ownEncoding(c, reflect.ValueOf(&v).Elem())
		var back SharedHolder
		rb := avro.NewReadBuf(enc)
		err = c.Read(rb, unsafe.Pointer(&back))
		res := fmt.Sprintf("regshared schema=%s enc=%s back=%+v err=%v left=%d", hashBytes(js), hashBytes(enc), back, err, rb.Len())
		rb.ExtractResourceBank().Close()
		return res
	case "schema":
		s, err := avro.SchemaForType(reflect.New(d.Type).Elem().Interface())
		if err != nil {
			return "schema err: " + err.Error()
		}
		js, err := s.Marshal()
		return fmt.Sprintf("schema err=%v %s", err, hashBytes(js))
	case "parsetime":
		offMin := op.B%1681 - 840
		if op.A%2 == 0 {
			// a small pool, so that different goroutines also parse the SAME offsets
			offMin = []int{345, -210, 60}[op.B%3]
		}
		sign := "+"
		if offMin < 0 {
			sign = "-"
			offMin = -offMin
		}
		ts := fmt.Sprintf("20%02d-0%d-1%dT0%d:%02d:%02d.%03d%s%02d:%02d", op.A%100, 1+op.A%9, op.A%10, op.A%10, op.B%60, op.A%60, op.B%1000, sign, offMin/60, offMin%60)
		if op.B%7 == 0 {
			ts = ts[:strings.LastIndexAny(ts, "+-")] + "Z"
		}
		var payload []byte
		payload = ref.AppendLong(payload, 1) // union branch: string
		payload = ref.AppendLong(payload, int64(len(ts)))
		payload = append(payload, ts...)
		var out TimeOnly
		rb := avro.NewReadBuf(payload)
		err := env.timeC.Read(rb, unsafe.Pointer(&out))
		rb.ExtractResourceBank().Close()
		_, off := out.T.Zone()
		return fmt.Sprintf("time err=%v unixnano=%d off=%d", err, out.T.UnixNano(), off)
	case "unions":
		// the general union codec, shared: every branch selector in turn, decode and skip
		var payload []byte
		payload = ref.AppendLong(payload, int64(op.A%2))
		payload = ref.AppendLong(payload, int64(op.B)*31+1)
		vsel := int64(op.B % 3)
		payload = ref.AppendLong(payload, vsel)
		if vsel != 0 {
			payload = ref.AppendLong(payload, int64(op.A)*17+2)
		}
		payload = ref.AppendLong(payload, int64(op.A%3))
		payload = ref.AppendLong(payload, int64(op.B%1000))
		var out Unions
		rb := avro.NewReadBuf(payload)
		err := env.unionsC.Read(rb, unsafe.Pointer(&out))
		v := int64(-1)
		if out.V != nil {
			v = *out.V
		}
		left := rb.Len()
		rb.ExtractResourceBank().Close()
		rb2 := avro.NewReadBuf(payload)
		serr := env.unionsC.Skip(rb2)
		res := fmt.Sprintf("unions err=%v u=%d v=%d w=%d left=%d skip-err=%v skip-left=%d", err, out.U, v, out.W, left, serr, rb2.Len())
		rb2.ExtractResourceBank().Close()
		return res
	case "bankchurn":
		// banks taken from and returned to the pool in quick succession, three held
		// at a time; while a bank is held, what this goroutine put into it is
		// nobody else's to touch
		mark := int64(g+1)<<32 | int64(op.A)
		bad := 0
		for i := 0; i < 24+op.B%16; i++ {
			rb := avro.NewReadBuf(nil)
			b1 := rb.ExtractResourceBank()
			b2 := rb.ExtractResourceBank()
			p1 := (*int64)(b1.Alloc(int64Type))
			p2 := (*int64)(b2.Alloc(int64Type))
			p3 := (*int64)(rb.Alloc(int64Type))
			*p1, *p2, *p3 = mark, ^mark, mark+1
			s := b1.ToString([]byte("owner-"))
			if i%8 == 7 && !alone {
				runtime.Gosched()
			}
			if *p1 != mark || *p2 != ^mark || *p3 != mark+1 || s != "owner-" || p1 == p2 || p2 == p3 {
				bad++
			}
			b1.Close()
			b2.Close()
			rb.ExtractResourceBank().Close()
		}
		return fmt.Sprintf("bankchurn foreign-writes=%d", bad)
	case "deepschema":
		// schema text nested 30-60 levels deep (arrays of arrays ... of a record):
		// parsing and re-marshalling it is independent of who else is parsing
		depth := 30 + op.A%31
		js := strings.Repeat(`{"type":"array","items":`, depth) + fmt.Sprintf(`{"type":"record","name":"Deep%d","fields":[{"name":"a","type":["null","long"]}]}`, op.B%7) + strings.Repeat("}", depth)
		s, err := avro.SchemaFromString(js)
		if err != nil {
			return fmt.Sprintf("deepschema depth=%d err: %v", depth, err)
		}
		out, err := s.Marshal()
		return fmt.Sprintf("deepschema depth=%d err=%v %s", depth, err, hashBytes(out))
	case "timelong":
		// times as scaled integers: with the shared codec, or with a codec this
		// goroutine builds for itself from the schema text (in either order)
		c := env.timeLongC
		own := op.A%2 == 1
		if own {
			tls, err := avro.SchemaFromString(timeLongsSchema)
			if err != nil {
				return "timelong schema err: " + err.Error()
			}
			if c, err = tls.Codec(TimeLongs{}); err != nil {
				return "timelong codec err: " + err.Error()
			}
		}
		var payload []byte
		payload = ref.AppendLong(payload, 1_600_000_000_000_000+int64(op.B)*1_000_003) // micros
		payload = ref.AppendLong(payload, 1_500_000_000_000+int64(op.A)*1_009)         // millis
		payload = ref.AppendLong(payload, 1_400_000_000_000_000_000+int64(op.B)*7)     // no logical type
		payload = ref.AppendLong(payload, 18_000+int64(op.B%2000))                     // days
		payload = ref.AppendLong(payload, 1)
		payload = ref.AppendLong(payload, 1_300_000_000_000+int64(op.B)) // millis behind a pointer
		var out TimeLongs
		rb := avro.NewReadBuf(payload)
		err := c.Read(rb, unsafe.Pointer(&out))
		e := int64(-1)
		if out.E != nil {
			e = out.E.UnixNano()
		}
		res := fmt.Sprintf("timelong own=%v err=%v a=%d b=%d c=%d d=%d e=%d", own, err, out.A.UnixNano(), out.B.UnixNano(), out.C.UnixNano(), out.D.Unix(), e)
		rb.ExtractResourceBank().Close()
		return res
	case "encoder":
		if d.HasMultiMap || d.RefOnly {
			d = typeByName("Flat")
			ti = -1
		}
		w := &DiskWriter{Yield: c12Yield}
		e, err := d.NewEnc(w, avro.Compression(codecNames[op.B%3]), []int{0, 40, 1 << 20}[op.A%3])
		if err != nil {
			return "encoder err: " + err.Error()
		}
		vals := GenValues(d.Type, 1+op.B%4, uint64(op.A)<<12|uint64(op.B), 1)
		for _, v := range vals {
			if err := e.Encode(v); err != nil {
				return "encode err: " + err.Error()
			}
		}
		if err := e.Flush(); err != nil {
			return "flush err: " + err.Error()
		}
		return "encoder " + maskedFile(w.Buf)
	}
	return "unknown op"
}

func newC12Env(pl *C12Plan) (*c12Env, error) {
	env := &c12Env{ng: len(pl.Ops)}
	if err := registerShared(); err != nil {
		return nil, err
	}
	r := NewRng(pl.VSeed, 0x12e)
	for _, name := range c12Types {
		d := typeByName(name)
		zero := reflect.New(d.Type).Elem().Interface()
		s, err := avro.SchemaForType(zero)
		if err != nil {
			return nil, err
		}
		c, err := s.Codec(zero)
		if err != nil {
			return nil, err
		}
		vals := GenValues(d.Type, 4, r.Uint64(), 1)
		var pls [][]byte
		for _, v := range vals {
			pls = append(pls, ownEncoding(c, v))
		}
		pt := d.Type
		if pt.NumField() >= 2 {
			pt = projectedType(pt)
		}
		pc, err := s.Codec(reflect.New(pt).Elem().Interface())
		if err != nil {
			return nil, err
		}
		ec, err := s.Codec(Empty{})
		if err != nil {
			return nil, err
		}
		js, err := s.Marshal()
		if err != nil {
			return nil, err
		}
		env.schemaJS = append(env.schemaJS, string(js))
		env.pcodecs = append(env.pcodecs, pc)
		env.ptypes = append(env.ptypes, pt)
		env.ecodecs = append(env.ecodecs, ec)
		env.types = append(env.types, d)
		env.codecs = append(env.codecs, c)
		env.values = append(env.values, vals)
		env.payloads = append(env.payloads, pls)
		fs := FileSpec{Type: name, N: r.Range(2, 7), VSeed: r.Uint64(), VClass: 1, Codec: r.Pick(codecNames), Writer: "enc", BlockSize: r.PickInt([]int{0, 60, 1 << 20}), SyncSeed: r.Uint64()}
		bf, err := BuildFile(fs)
		if err != nil {
			return nil, err
		}
		env.files = append(env.files, bf.Bytes)
		env.ftypes = append(env.ftypes, d.Type)
	}
	for _, name := range []string{"Slices", "Fixed", "PtrSlices", "Nested"} {
		d := typeByName(name)
		rs := SchemaOf(d.Type)
		uniqueFixedNames(rs, map[string]int{})
		as, err := avro.SchemaFromString(rs.JSON())
		if err != nil {
			return nil, err
		}
		c, err := as.Codec(reflect.New(d.Type).Elem().Interface())
		if err != nil {
			return nil, err
		}
		var pls [][]byte
		for i, v := range GenValues(d.Type, 3, r.Uint64(), 2) {
			k := i + 1
			sp := func(n int) ([]int, bool) {
				if n == 0 {
					return nil, false
				}
				var out []int
				for n > 0 {
					c := min(k, n)
					out = append(out, c)
					n -= c
				}
				return out, i%2 == 1
			}
			e := &ref.Enc{NoMap: true}
			if err := e.Encode(rs, ToDatum(rs, v, false, sp), "r"); err != nil {
				return nil, err
			}
			pls = append(pls, e.Buf)
		}
		env.refTypes = append(env.refTypes, d.Type)
		env.refCodecs = append(env.refCodecs, c)
		env.refPayloads = append(env.refPayloads, pls)
	}
	s, err := avro.SchemaForType(TimeOnly{})
	if err != nil {
		return nil, err
	}
	env.timeC, err = s.Codec(TimeOnly{})
	if err != nil {
		return nil, err
	}
	tls, err := avro.SchemaFromString(timeLongsSchema)
	if err != nil {
		return nil, err
	}
	if env.timeLongC, err = tls.Codec(TimeLongs{}); err != nil {
		return nil, err
	}
	uns, err := avro.SchemaFromString(unionsSchema)
	if err != nil {
		return nil, err
	}
	if env.unionsC, err = uns.Codec(Unions{}); err != nil {
		return nil, err
	}
	for g := 0; g < env.ng; g++ {
		env.chunks = append(env.chunks, genChunks(r))
		env.chans = append(env.chans, make(chan *avro.ResourceBank, 4096))
	}
	return env, nil
}

// raceLog reads what the race detector has written since the last call.
var raceLogOff int64

func readRaceLog() string {
	path := os.Getenv("VERIF_RACE_LOG")
	if path == "" {
		return ""
	}
	f, err := os.Open(fmt.Sprintf("%s.%d", path, os.Getpid()))
	if err != nil {
		return ""
	}
	defer f.Close()
	st, err := f.Stat()
	if err != nil || st.Size() <= raceLogOff {
		return ""
	}
	// A tree with a wholesale race can make the detector write gigabytes in
	// one parallel burst; the first megabyte of reports says what there is to
	// say (the count in the violation text is then a lower bound).
	n := min(st.Size()-raceLogOff, 1<<20)
	b := make([]byte, n)
	if _, err := f.ReadAt(b, raceLogOff); err != nil && err != io.EOF {
		return ""
	}
	raceLogOff = st.Size()
	return string(b)
}

func raceLogSize() int64 {
	path := os.Getenv("VERIF_RACE_LOG")
	if path == "" {
		return 0
	}
	st, err := os.Stat(fmt.Sprintf("%s.%d", path, os.Getpid()))
	if err != nil {
		return 0
	}
	return st.Size()
}

func raceSite(report string) string {
	for _, l := range strings.Split(report, "\n") {
		l = strings.TrimSpace(l)
		if strings.HasPrefix(l, libPrefix) {
			if j := strings.LastIndexByte(l, '('); j > 0 {
				l = l[:j]
			}
			return normFunc(l)
		}
	}
	return "outside-library"
}

func (c12Prop) Execute(p *Plan, run *Run) any {
	pl := p.C12
	ng := len(pl.Ops)
	if ng < 1 || ng > 6 {
		run.Infra("bad goroutine count")
		return nil
	}
	if pl.Burst > 0 {
		return c12Burst(p, run)
	}
	readRaceLog() // discard anything reported outside a plan
	pool := &racePool{choices: pl.Pool}
	curRacePool = pool
	avro.SimHooks.BankGet = racePoolGet
	avro.SimHooks.BankPut = racePoolPut
	avro.SimHooks.Yield = c12Yield
	avrotime.SimYield = c12Yield
	defer func() {
		avro.SimHooks.BankGet, avro.SimHooks.BankPut, avro.SimHooks.Yield, avrotime.SimYield = nil, nil, nil, nil
		curRacePool, curSched = nil, nil
	}()
	sched := &tokenSched{turn: -1, n: int32(ng), choices: pl.Schedule, trace: make([]uint32, 1<<15)}
	curSched = sched
	env, err := newC12Env(pl)
	if err != nil {
		run.Probes.Inc("skipped:workload-unbuildable")
		run.Log.Add("skip")
		return map[string]any{"skipped": err.Error()}
	}
	if rep := readRaceLog(); rep != "" {
		run.Infra("race report while preparing the workload on one goroutine:\n" + head(rep, 2000))
		return nil
	}

	// ---- concurrent phase
	results := make([]c12Result, ng)
	var wg sync.WaitGroup
	for g := 0; g < ng; g++ {
		wg.Add(1)
		go func(g int) {
			defer wg.Done()
			sched.park(int32(g))
			for _, op := range pl.Ops[g] {
				results[g].res = append(results[g].res, env.execOp(g, op, false))
				c12Yield("op")
			}
			sched.finish(int32(g))
		}(g)
	}
	startToken(sched)
	wg.Wait()
	run.Evals++
	report := readRaceLog()

	// trace -> log, signatures
	touched := map[uint32]map[uint32]bool{}
	th := sha256.New()
	var prev uint32 = 1 << 31
	for i := int32(0); i < sched.tn; i++ {
		e := sched.trace[i]
		fmt.Fprintf(th, "%d,", e)
		g, site := e>>16, e&0xffff
		if touched[site] == nil {
			touched[site] = map[uint32]bool{}
		}
		touched[site][g] = true
		if prev != 1<<31 && prev>>16 != g {
			run.Probes.Inc("adjacent:" + siteNames[prev&0xffff] + "->" + siteNames[site])
		}
		prev = e
	}
	traceHash := hex.EncodeToString(th.Sum(nil)[:8])
	run.Log.Add("trace %s steps=%d", traceHash, sched.steps)
	shared := false
	for _, site := range []uint32{siteRegW, siteRegR, siteSchemaW, siteSchemaR, siteTz} {
		if len(touched[site]) >= 2 {
			shared = true
			run.Probes.Inc("shared-by-2+-goroutines:" + siteNames[site])
		}
	}
	if pool.crossed > 0 {
		shared = true
	}
	if shared {
		run.Sig("interleaving:%s", traceHash)
	}
	run.Probes.Addn("sched-steps", int(sched.steps))
	run.Probes.Addn("bank-requests", int(pool.gets))
	run.Probes.Addn("banks-recycled", int(pool.recycled))
	run.Probes.Addn("bank-crossed-goroutines", int(pool.crossed))
	run.Faults.Addn("sched-switch", int(sched.steps))
	if pool.overflow > 0 {
		run.Infra("simulated pool overflow")
		return nil
	}

	if report != "" {
		n := strings.Count(report, "WARNING: DATA RACE")
		run.Log.Add("race reports=%d", n)
		if n > 0 {
			run.Violation("c12/data-race", raceSite(report), fmt.Sprintf("the race detector reported %d data race(s) during the concurrent phase (schedule trace %s):\n%s", n, traceHash, head(report, 6000)), nil)
			return nil
		}
	}
	if pool.double > 0 {
		run.Violation("c12/bank-closed-twice", "pool", "a bank was put back twice without being reissued", nil)
		return nil
	}

	for g := 0; g < ng; g++ {
		for i, op := range pl.Ops[g] {
			run.Probes.Inc("op:" + op.Op)
			if i < len(results[g].res) && (strings.Contains(results[g].res[i], "err: ") || strings.Contains(results[g].res[i], "err=") && !strings.Contains(results[g].res[i], "err=<nil>")) {
				run.Probes.Inc("op-returned-error:" + op.Op)
			}
		}
	}
	// ---- each goroutine's list alone, afterwards
	sched.turn = -1
	for g := 0; g < ng; g++ {
		for i, op := range pl.Ops[g] {
			want := env.execOp(g, op, true)
			tick()
			got := "<missing>"
			if i < len(results[g].res) {
				got = results[g].res[i]
			}
			run.Log.Add("g%d op%d %s", g, i, hashBytes([]byte(got)))
			if got != want {
				cls := "c12/result-differs"
				if strings.HasPrefix(got, "PANIC") && !strings.HasPrefix(want, "PANIC") {
					cls = "c12/panic"
				}
				run.Violation(cls, op.Op, fmt.Sprintf("goroutine %d op %d (%s a=%d b=%d): concurrent result %q, alone %q (schedule trace %s)", g, i, op.Op, op.A, op.B, clipN(got, 300), clipN(want, 300), traceHash), nil)
				return nil
			}
		}
	}
	if rep := readRaceLog(); rep != "" && strings.Contains(rep, "DATA RACE") {
		// a race between the concurrent phase and the sequential re-run is
		// still a race the library did not prevent (e.g. unsynchronised global)
		run.Violation("c12/data-race", raceSite(rep), "the race detector reported a data race between the concurrent phase and the later sequential re-execution:\n"+head(rep, 6000), nil)
		return nil
	}
	return map[string]any{"goroutines": ng, "sched_steps": sched.steps, "trace": traceHash, "bank_requests": pool.gets, "banks_crossed_goroutines": pool.crossed}
}

//go:norace
func startToken(s *tokenSched) { s.turn = s.pick() }

// c12Burst: see C12Plan.Burst.
func c12Burst(p *Plan, run *Run) any {
	pl := p.C12
	ng := len(pl.Ops)
	readRaceLog()
	curSched, curRacePool = nil, nil
	avro.SimHooks.BankGet, avro.SimHooks.BankPut, avro.SimHooks.Yield, avrotime.SimYield = nil, nil, nil, nil
	env, err := newC12Env(pl)
	if err != nil {
		run.Probes.Inc("skipped:workload-unbuildable")
		run.Log.Add("skip")
		return map[string]any{"skipped": err.Error()}
	}
	first := make([][]string, ng)
	mism := make([]string, ng)
	var enough atomic.Bool // set by the ticker only; a load that sees false orders nothing
	// when a burst plan is replayed (or re-checked by the minimiser) it is given
	// more repetitions: the plan is the same, only the exposure is longer
	reps := min(pl.Burst*envInt("VERIF_BURST_BOOST", 1), max(pl.Burst, 20000))
	prev := runtime.GOMAXPROCS(8)
	start := make(chan struct{})
	var wg sync.WaitGroup
	for g := 0; g < ng; g++ {
		wg.Add(1)
		go func(g int) {
			defer wg.Done()
			<-start
			for r := 0; r < reps && !enough.Load(); r++ {
				for i, op := range pl.Ops[g] {
					res := env.execOp(g, op, false)
					if r == 0 {
						first[g] = append(first[g], res)
					} else if res != first[g][i] && mism[g] == "" {
						mism[g] = fmt.Sprintf("goroutine %d op %d (%s a=%d b=%d), repetition %d: result %q, first repetition %q", g, i, op.Op, op.A, op.B, r, clipN(res, 300), clipN(first[g][i], 300))
					}
				}
			}
		}(g)
	}
	// progress journal from a goroutine of its own: the workers must not share
	// any synchronisation with the harness (it would order their accesses)
	stopTick := make(chan struct{})
	go func() {
		for {
			select {
			case <-stopTick:
				return
			case <-time.After(200 * time.Millisecond):
				os.Stderr.WriteString("@@T\n")
				// the detector has no cap of its own: once it has written a few
				// megabytes of reports there is nothing more to learn from this burst
				if raceLogSize()-raceLogOff > 4<<20 {
					enough.Store(true)
				}
			}
		}
	}()
	close(start)
	wg.Wait()
	close(stopTick)
	runtime.GOMAXPROCS(prev)
	run.Evals++
	run.Probes.Inc("parallel-burst-plans")
	run.Faults.Addn("parallel-burst-repetitions", pl.Burst)
	kinds := map[string]bool{}
	for _, ops := range pl.Ops {
		for _, op := range ops {
			kinds[op.Op] = true
		}
	}
	run.Sig("burst|%s|g%d", strings.Join(sortedKeys(kinds), "+"), ng)
	run.Log.Add("burst g=%d reps=%d", ng, pl.Burst)
	if rep := readRaceLog(); strings.Contains(rep, "DATA RACE") {
		run.Violation("c12/data-race", raceSite(rep), fmt.Sprintf("parallel burst: the race detector reported %d data race(s):\n%s", strings.Count(rep, "WARNING: DATA RACE"), head(rep, 6000)), nil)
		return nil
	}
	for g := 0; g < ng; g++ {
		if mism[g] != "" {
			run.Violation("c12/result-differs", "parallel-burst", "parallel burst (goroutines truly in parallel, not replayable exactly): "+mism[g], nil)
			return nil
		}
	}
	for g := 0; g < ng; g++ {
		for i, op := range pl.Ops[g] {
			want := env.execOp(g, op, true)
			if i < len(first[g]) && first[g][i] != want {
				run.Violation("c12/result-differs", "parallel-burst", fmt.Sprintf("parallel burst (not replayable exactly): goroutine %d op %d (%s a=%d b=%d): result in parallel %q, alone %q", g, i, op.Op, op.A, op.B, clipN(first[g][i], 300), clipN(want, 300)), nil)
				return nil
			}
		}
	}
	return map[string]any{"goroutines": ng, "mode": "parallel-burst", "repetitions": pl.Burst}
}

func clipN(s string, n int) string {
	if len(s) > n {
		return s[:n] + "…"
	}
	return s
}

func (c12Prop) ReplayAttempts(p *Plan) int {
	if p.C12 != nil && p.C12.Burst > 0 {
		return 40 // real parallelism: each attempt has only some probability of hitting the window
	}
	// the schedule replays exactly; the race detector's verdict on it has a
	// small residue of chance (runtime-internal synchronisation, DESIGN §9)
	return 5
}

func (c12Prop) MinimiseAttempts(p *Plan) int {
	if p.C12 != nil && p.C12.Burst > 0 {
		return 40
	}
	return 1
}

func (c12Prop) Shrink(p *Plan) []*Plan {
	var out []*Plan
	if p.C12.Burst > 0 {
		return nil // not exactly replayable: no shrinking
	}
	mut := func(f func(q *C12Plan)) {
		q := p.clone()
		f(q.C12)
		out = append(out, q)
	}
	pl := p.C12
	if len(pl.Ops) > 2 {
		for g := range pl.Ops {
			g := g
			mut(func(q *C12Plan) { q.Ops = append(append([][]C12Op{}, q.Ops[:g]...), q.Ops[g+1:]...) })
		}
	}
	for g := range pl.Ops {
		for i := range pl.Ops[g] {
			if len(pl.Ops[g]) <= 1 {
				continue
			}
			g, i := g, i
			mut(func(q *C12Plan) { q.Ops[g] = append(append([]C12Op{}, q.Ops[g][:i]...), q.Ops[g][i+1:]...) })
		}
	}
	if len(pl.Schedule) > 1 {
		mut(func(q *C12Plan) { q.Schedule = []int32{1} })
		mut(func(q *C12Plan) { q.Schedule = q.Schedule[:len(q.Schedule)/2] })
	}
	return out
}
