package main

import (
	"fmt"
	"math"
	"os"
	"reflect"
	"runtime/metrics"
	"strings"
	"time"
	"unsafe"

	"github.com/philpearl/avro"
	"github.com/unravelin/null/v5"

	"verif/sim/ref"
)

// C06 (scoped) — faults on valid artifacts yield errors, never panics, hangs
// or runaway allocation. See DESIGN §5 C06 for the scope: storage faults
// placed inside real structure (bit/byte/sector damage, misdirected and lost
// writes, torn streams, read errors, and structure-aware rewrites of single
// encoded fields), read through the file reader and through record
// decode/skip.

type C06Fault struct {
	Kind string `json:"kind"` // flip byte zero junk dup drop trunc rerr field hfield schema
	Off  uint32 `json:"off"`  // raw position (mapped modulo the relevant length)
	Len  int    `json:"len,omitempty"`
	Val  int    `json:"val,omitempty"`
	// field faults
	Block int    `json:"block,omitempty"`
	Site  uint32 `json:"site,omitempty"`  // raw, modulo the number of sites
	Class string `json:"class,omitempty"` // replacement class
	Raw   bool   `json:"raw,omitempty"`   // leave the enclosing block byte length stale
}

type C06Case struct {
	Faults []C06Fault `json:"faults"`
}

type C06Plan struct {
	Src    string    `json:"src"` // file | wire
	File   FileSpec  `json:"file,omitempty"`
	Wire   int       `json:"wire,omitempty"`
	WSeed  uint64    `json:"wseed,omitempty"`
	WN     int       `json:"wn,omitempty"`
	WCodec string    `json:"wcodec,omitempty"`
	WParts int       `json:"wparts,omitempty"` // records per block
	Chunks ChunkSpec `json:"chunks"`
	Cases  []C06Case `json:"cases,omitempty"`
	// Enum: enumerate every (field site x replacement class) of the artifact
	// (both variants) instead of Cases.
	Enum    bool `json:"enum,omitempty"`
	EnumCap int  `json:"enum_cap,omitempty"`
}

type c06Prop struct{}

func init() { register(c06Prop{}) }

func (c06Prop) ID() string    { return "C06" }
func (c06Prop) Level() string { return "exploration" }
func (c06Prop) Race() bool    { return false }

func (c06Prop) Count(tier string) int {
	if tier == "thorough" {
		return 16000
	}
	return 600
}

func (c06Prop) Rule() string {
	return "plan = valid artifact (curated type via the real Encoder or the reference writer; or one of 5 reference-writer 'wire schemas' reaching every codec kind: arrays/maps in one or many blocks with and without byte sizes, unions null-first / null-second / single-branch / three-branch, fixed, nested records, zero-width items, timestamps) + ~40 fault cases of 1..3 faults each from {bit flip, byte overwrite, zeroed / junk sector, range stored twice, range lost, truncation, read error, structure-aware rewrite of one encoded field (17 varint classes / body classes, raw and consistent variants), rewrite of a header varint, schema-text damage}. Every 12th plan instead ENUMERATES every (field site x class x variant) of its artifact. " +
		"One execution = one call of a reading entry point on one damaged artifact: ReadFile into the full target, into a projected target and into an empty struct (pure skip), and Schema.Codec + Codec.Read / Codec.Skip on damaged block bodies. Non-trivial = at least one fault took effect. " +
		"distinct_nontrivial counts distinct (entry, fault kind, field-site kind, replacement class, codec, target) signatures."
}

func (c06Prop) Assumptions() []string {
	return []string{
		"SCOPE: faults on valid artifacts reaching the file reader, the schema parser / codec construction (through damaged header schema text) and the record decode/skip paths and timestamp parser (through damaged record bytes). Free-standing fuzzing of SchemaFromString, parseTime or Codec.Read with unrelated bytes is NOT covered",
		"allocation bound per call: 16 MiB + 200 x (input length + total decompressed size) (largest ratio measured on the unchanged tree for inputs >= 32 KiB: 26); CPU budget per plan 20 s of the worker's own CPU time (typical call: 10-100 us)",
		"which error comes back, or whether one comes back, is never judged (damage may produce another valid artifact)",
		"workers are child processes under an address-space limit: a process death (fatal error: out of memory, runtime fault) is attributed to the case in flight through the journal",
	}
}

// ---------------------------------------------------------------------------
// Wire schemas: reference-writer-only schemas with hand-written targets

type W0T struct {
	A []int64            `json:"a"`
	B map[string]string  `json:"b"`
	C []Inner            `json:"c"`
	D map[string][]int64 `json:"d"`
	E []byte             `json:"e"`
	F string             `json:"f"`
	G []struct{}         `json:"g"`
	H []Empty            `json:"h"`
	I int64              `json:"i"`
}

type W1T struct {
	A int64            `json:"a"`
	B string           `json:"b"`
	C *int64           `json:"c"`
	E []string         `json:"e"`
	F map[string]int64 `json:"f"`
	G *Inner           `json:"g"`
	Z int64            `json:"z"`
}

type W2T struct {
	A [5]byte           `json:"a"`
	B [][2]byte         `json:"b"`
	C float32           `json:"c"`
	D float64           `json:"d"`
	E float32           `json:"e"`
	F bool              `json:"f"`
	G int32             `json:"g"`
	I map[string][]byte `json:"i"`
	J *[3]byte          `json:"j"`
	K *[]int64          `json:"k"`
}

type W3T struct {
	T time.Time   `json:"t"`
	U time.Time   `json:"u"`
	V time.Time   `json:"v"`
	W time.Time   `json:"w"`
	X time.Time   `json:"x"`
	Y []time.Time `json:"y"`
	P *time.Time  `json:"p"`
	S string      `json:"s"`
}

type W4In3 struct {
	A [][]map[string][]int64 `json:"a"`
	S string                 `json:"s"`
}
type W4In2 struct {
	R W4In3  `json:"r"`
	P *W4In3 `json:"p"`
}
type W4T struct {
	R W4In2            `json:"r"`
	L []W4In2          `json:"l"`
	M map[string]W4In2 `json:"m"`
}

// W6: the null.* wrappers under every wire type their builders accept
// (null.Float under float as well as double, null.Int under int as well as long).
type W6T struct {
	I  null.Int    `json:"i"`
	J  null.Int    `json:"j"`
	F  null.Float  `json:"f"`
	D  null.Float  `json:"d"`
	B  null.Bool   `json:"b"`
	S  null.String `json:"s"`
	T  null.Time   `json:"t"`
	PF *null.Float `json:"pf"`
	Z  int64       `json:"z"`
}

type W7T struct {
	F []float32          `json:"f"`
	D []float64          `json:"d"`
	G []float32          `json:"g"`
	B []bool             `json:"b"`
	I []int32            `json:"i"`
	S []int16            `json:"s"`
	X [][4]byte          `json:"x"`
	M map[string]float64 `json:"m"`
	N map[string]bool    `json:"n"`
	K map[string]float32 `json:"k"`
	// zero-size fixed where the decoder has to allocate the value itself
	P0 *[0]byte           `json:"p0"`
	M0 map[string][0]byte `json:"m0"`
	P1 *[1]byte           `json:"p1"`
	// unions that are not "null and one other": the general union codec
	U int64  `json:"u"`
	V *int64 `json:"v"`
	Z int64  `json:"z"`
}

type W5T struct {
	A []*int64 `json:"a"`
	S string   `json:"s"`
	B []*Inner `json:"b"`
}

type wireDesc struct {
	Name   string
	Schema *ref.Schema
	Target reflect.Type
}

func rec(name string, fields ...ref.Field) *ref.Schema {
	return &ref.Schema{Kind: "record", Name: name, Fields: fields}
}
func fld(name string, t *ref.Schema) ref.Field { return ref.Field{Name: name, Type: t} }
func arr(t *ref.Schema) *ref.Schema            { return &ref.Schema{Kind: "array", Items: t} }
func mp(t *ref.Schema) *ref.Schema             { return &ref.Schema{Kind: "map", Values: t} }
func un(bs ...*ref.Schema) *ref.Schema         { return &ref.Schema{Kind: "union", Branches: bs} }
func fixed(name string, n int) *ref.Schema     { return &ref.Schema{Kind: "fixed", Name: name, Size: n} }
func timeStr() *ref.Schema                     { return &ref.Schema{Kind: "string", Hint: "time"} }

var wires []wireDesc

func init() {
	P := ref.Prim
	inner := func(n string) *ref.Schema { return rec(n, fld("a", P("long")), fld("s", P("string"))) }
	wires = []wireDesc{
		{"W0", rec("W0",
			fld("a", arr(P("long"))), fld("b", mp(P("string"))), fld("c", arr(inner("InnerC"))), fld("d", mp(arr(P("long")))),
			fld("e", P("bytes")), fld("f", P("string")), fld("g", arr(P("null"))), fld("h", arr(rec("EmptyRec"))), fld("i", P("long"))),
			reflect.TypeFor[W0T]()},
		{"W1", rec("W1",
			fld("a", un(P("null"), P("long"), P("int"))), fld("b", un(P("string"))), fld("c", un(P("long"), P("null"))),
			fld("d", un(P("null"), P("string"), P("bytes"))), fld("e", un(P("null"), arr(P("string")))), fld("f", un(P("null"), mp(P("long")))),
			fld("g", un(P("null"), inner("InnerG"))), fld("z", P("long"))),
			reflect.TypeFor[W1T]()},
		{"W2", rec("W2",
			fld("a", fixed("F5", 5)), fld("b", arr(fixed("F2", 2))), fld("c", P("float")), fld("d", P("double")), fld("e", P("double")),
			fld("f", P("boolean")), fld("g", P("int")), fld("i", mp(P("bytes"))), fld("j", un(P("null"), fixed("F3", 3))), fld("k", arr(P("long")))),
			reflect.TypeFor[W2T]()},
		{"W3", rec("W3",
			fld("t", timeStr()), fld("u", un(P("null"), timeStr())), fld("v", &ref.Schema{Kind: "long", Logical: "timestamp-micros"}),
			fld("w", &ref.Schema{Kind: "int", Logical: "date"}), fld("x", P("long")), fld("y", arr(timeStr())), fld("p", un(P("null"), timeStr())), fld("s", P("string"))),
			reflect.TypeFor[W3T]()},
		{"W4", rec("W4",
			fld("r", rec("W4In2a", fld("r", rec("W4In3a", fld("a", arr(arr(mp(arr(P("long")))))), fld("s", P("string")))),
				fld("p", un(P("null"), rec("W4In3b", fld("a", arr(arr(mp(arr(P("long")))))), fld("s", P("string"))))))),
			fld("l", arr(rec("W4In2b", fld("r", rec("W4In3c", fld("a", arr(arr(mp(arr(P("long")))))), fld("s", P("string")))),
				fld("p", un(P("null"), rec("W4In3d", fld("a", arr(arr(mp(arr(P("long")))))), fld("s", P("string")))))))),
			fld("m", mp(rec("W4In2c", fld("r", rec("W4In3e", fld("a", arr(arr(mp(arr(P("long")))))), fld("s", P("string")))),
				fld("p", un(P("null"), rec("W4In3f", fld("a", arr(arr(mp(arr(P("long")))))), fld("s", P("string"))))))))),
			reflect.TypeFor[W4T]()},
		// W5: long arrays of nullable items — every non-null item is one bank
		// allocation, so a single record makes tens of thousands of them
		{"W5", rec("W5", fld("a", arr(un(P("null"), P("long")))), fld("s", P("string")), fld("b", arr(un(P("null"), inner("InnerB"))))),
			reflect.TypeFor[W5T]()},
		{"W6", rec("W6", fld("i", un(P("null"), P("int"))), fld("j", un(P("long"), P("null"))), fld("f", un(P("null"), P("float"))), fld("d", un(P("null"), P("double"))),
			fld("b", un(P("null"), P("boolean"))), fld("s", un(P("null"), P("string"))), fld("t", un(P("null"), timeStr())), fld("pf", un(P("null"), P("float"))), fld("z", P("long"))),
			reflect.TypeFor[W6T]()},
		// W7: arrays and maps of every fixed-width item (block-wise copies,
		// counts multiplied by an item width)
		{"W7", rec("W7", fld("f", arr(P("float"))), fld("d", arr(P("double"))), fld("g", arr(P("double"))), fld("b", arr(P("boolean"))), fld("i", arr(P("int"))), fld("s", arr(&ref.Schema{Kind: "int", Hint: "int16"})),
			fld("x", arr(fixed("W7x", 4))), fld("m", mp(P("double"))), fld("n", mp(P("boolean"))), fld("k", mp(P("float"))),
			fld("p0", un(P("null"), fixed("W7p", 0))), fld("m0", mp(fixed("W7m", 0))), fld("p1", un(P("null"), fixed("W7q", 1))),
			fld("u", un(P("long"), P("int"))), fld("v", un(P("null"), P("long"), P("int"))), fld("z", P("long"))),
			reflect.TypeFor[W7T]()},
	}
}

// ---------------------------------------------------------------------------
// Artifact

type c06Block struct {
	count   int64
	payload []byte // uncompressed
	sites   []ref.Site
}

type c06Artifact struct {
	schemaJSON string
	codec      string // null deflate snappy none
	sync       [16]byte
	blocks     []c06Block
	file       []byte // the intact file
	cont       *ref.Container
	target     reflect.Type
	hasTime    bool
	decompSum  int
}

var timeDict = []string{
	"2006-01-02T15:04:05.", "2006-01-02T15:04:05,", "2006-01-02T15:04:05.Z", "2006-01-02T15:04:05", "2006-01-02T15:04:05+", "2006-01-02T15:04:05+0",
	"2006-01-02T15:04:05+08:0", "2006-01-02T15:04:05.123456789012345678901234567890Z", "2006-01-02", "2006-01-0", "", "T", "2006-01-02T",
	"2006-01-02T15:04:05-99:99", "9999-99-99T99:99:99Z", "2006-01-02T15:04:05.1+", "2006-01-02T15:04:05.\xff", "2006-01-02T15:04:05\x00", "0000-00-00T00:00:00.0000000000000000000000000000000000000000Z",
	"2006-01-02T15:04:05.5-", "2006-01-02T15:04:05,5+1", "２００６-01-02T15:04:05Z",
	// one- and two-character texts (a lenient parser that strips quotes, signs or
	// brackets must still check what is left)
	"\"", "\"\"", "'", "''", "{", "[", "-", "+", "T", "Z", ".", ",", " ", "0", "\"2006-01-02T15:04:05Z", "2006-01-02T15:04:05Z\"", "\"2006-01-02T15:04:05Z\"",
	"2006-01-02T15:04:05.1234567890Z", "2006-01-02T15:04:05.12345678901234567890+01:00", "2006-01-02t15:04:05z", "2006-01-02 15:04:05Z", "+2006-01-02T15:04:05Z", "-006-01-02T15:04:05Z",
}

// timeText2 derives a timestamp text from v: a well-formed RFC 3339 time in
// which exactly one component (a date or clock field, the fraction, or the
// zone's sign, hours, separator or minutes) is replaced by a boundary or
// malformed value. The parser is hand-written, field by field; the dictionary
// above cannot hold every (field, value) pair.
func timeText2(v int) string {
	t, _ := timeText2Parts(v)
	return t
}

func timeText2Kind(v int) string {
	_, k := timeText2Parts(v)
	return k
}

// per-field values: the boundaries of the field's own range, then malformed ones
var tt2Field = [][]string{
	{"0000", "0001", "9999", "1969", "-001", "+200", "20a6", "206", "20066", " 006", "\xd9\xa3006"}, // year
	{"00", "00", "01", "12", "13", "19", "99", "1", "", "1a", "-1", "001"},                          // month
	{"00", "00", "01", "28", "29", "30", "31", "32", "99", "3", "", "3a", "-1"},                     // day
	{"00", "23", "24", "25", "99", "2", "", "2a", "-1"},                                             // hour
	{"00", "59", "60", "61", "99", "5", "", "5a", "-1"},                                             // minute
	{"00", "59", "60", "61", "99", "5", "", "5a", "-1"},                                             // second
}
var tt2ZoneH = []string{"00", "01", "12", "13", "14", "14", "15", "23", "24", "30", "99", "8", "", "-1", "1a", "008"}
var tt2ZoneM = []string{"00", "01", "15", "30", "45", "59", "60", "99", "0", "", "000", "-1", "3a"}
var tt2Sep = []string{"", "::", ".", " ", "-"}

func timeText2Parts(v int) (string, string) {
	x := splitmix(uint64(v)*0x9e3779b97f4a7c15 + 77)
	next := func(n int) int {
		x = splitmix(x)
		return int(x % uint64(n))
	}
	parts := []string{"2006", "-", "01", "-", "02", "T", "15", ":", "04", ":", "05"}
	frac := []string{"", ".5", ".123", ".123456789", ",25"}[next(5)]
	sign := []string{"+", "-"}[next(2)]
	zh, zsep, zm := "08", ":", "00"
	zoneZ := next(3) == 0
	kind := ""
	switch which := next(10); {
	case which < 4: // a date or clock field
		fi := next(6)
		vals := tt2Field[fi]
		parts[2*fi] = vals[next(len(vals))]
		kind = fmt.Sprintf("field%d=%q", fi, parts[2*fi])
		if next(4) == 0 {
			// date only
			return strings.Join(parts[:5], ""), kind + "/date-only"
		}
	case which < 5: // a separator
		si := []int{1, 3, 5, 7, 9}[next(5)]
		parts[si] = []string{"", " ", ":", "-", "T", "t", "/", "--"}[next(8)]
		kind = fmt.Sprintf("sep%d=%q", si/2, parts[si])
	case which < 6: // the fraction
		frac = []string{".", ",", "..5", ".5.", ".-5", ".1234567890", ".12345678901234567890123", ". 5", ".5 ", ".a"}[next(10)]
		kind = fmt.Sprintf("frac=%q", frac)
	default: // the zone
		zoneZ = false
		switch next(5) {
		case 0:
			zh = tt2ZoneH[next(len(tt2ZoneH))]
		case 1:
			zm = tt2ZoneM[next(len(tt2ZoneM))]
		case 2, 3:
			zh = tt2ZoneH[next(len(tt2ZoneH))]
			zm = tt2ZoneM[next(len(tt2ZoneM))]
		default:
			zsep = tt2Sep[next(len(tt2Sep))]
		}
		if next(8) == 0 {
			sign = []string{"", "++", "+-", " ", "z", "Z+"}[next(6)]
		}
		kind = fmt.Sprintf("zone=%q", sign+zh+zsep+zm)
	}
	t := strings.Join(parts, "") + frac
	if zoneZ {
		t += "Z"
	} else {
		t += sign + zh + zsep + zm
	}
	return t, kind
}

// ---------------------------------------------------------------------------
// Timestamp text entry point: a record of one plain, one nullable and one
// null.Time timestamp, each carrying the same text.

type TimeTextT struct {
	T time.Time  `json:"t"`
	P *time.Time `json:"p"`
	N null.Time  `json:"n"`
}

var timeTextCodec avro.Codec

func timeTextBody(t string) []byte {
	var b []byte
	b = ref.AppendLong(b, int64(len(t)))
	b = append(b, t...)
	for i := 0; i < 2; i++ {
		b = ref.AppendLong(b, 1)
		b = ref.AppendLong(b, int64(len(t)))
		b = append(b, t...)
	}
	return b
}

func timeTextFor(f C06Fault) (string, string) {
	if f.Class == "dict" {
		i := f.Val % len(timeDict)
		return timeDict[i], fmt.Sprintf("dict[%d]", i)
	}
	return timeText2Parts(f.Val)
}

func c06BuildArtifact(pl *C06Plan) (*c06Artifact, error) {
	a := &c06Artifact{}
	switch pl.Src {
	case "file":
		bf, err := BuildFile(pl.File)
		if err != nil {
			return nil, err
		}
		c, err := ref.ParseContainer(bf.Bytes)
		if err != nil {
			return nil, err
		}
		a.file, a.cont, a.target = bf.Bytes, c, bf.Desc.Type
		a.codec = pl.File.Codec
		sj, _ := c.MetaValue("avro.schema")
		a.schemaJSON = string(sj)
		a.sync = c.Sync
		for j, bl := range c.Blocks {
			payload, err := ref.Decompress(c.Codec(), bf.Bytes[bl.PayloadOff:bl.PayloadEnd])
			if err != nil {
				return nil, err
			}
			b := c06Block{count: bl.Count, payload: payload}
			if bf.Sites != nil {
				b.sites = bf.Sites[j]
			}
			a.blocks = append(a.blocks, b)
		}
		a.hasTime = pl.File.Type == "Timed" || pl.File.Type == "Mixed"
	case "wire":
		w := wires[pl.Wire%len(wires)]
		r := NewRng(pl.WSeed, 0x6e)
		o := ref.GenOpts{MaxLen: 12, MaxItems: 4, TimeText: func() string { return genTime(r).Format(time.RFC3339Nano) }}
		skew := false
		if w.Name == "W5" {
			o.MaxItems = []int{40, 3000, 20000, 45000}[pl.WSeed%4]
			// skewed files: one long array early, then hundreds of short ones
			// (anything sized from "the longest seen so far" shows here)
			skew = pl.WN > 6
		}
		a.target = w.Target
		a.codec = pl.WCodec
		a.schemaJSON = w.Schema.JSON()
		a.sync = syncFromSeed(pl.WSeed)
		a.hasTime = w.Name == "W3" || w.Name == "W6"
		var blocks []ref.BlockSpec
		left := pl.WN
		per := max(1, pl.WParts)
		for left > 0 {
			n := min(per, left)
			e := &ref.Enc{}
			for k := 0; k < n; k++ {
				oo := o
				if skew && (left != pl.WN || k > 0) {
					oo.MaxItems = 2
				}
				if err := e.Encode(w.Schema, ref.GenDatum(w.Schema, r, oo, 0), "r"); err != nil {
					return nil, err
				}
			}
			stored, err := ref.Compress(a.codec, e.Buf)
			if err != nil {
				return nil, err
			}
			blocks = append(blocks, ref.BlockSpec{Count: int64(n), Stored: stored})
			a.blocks = append(a.blocks, c06Block{count: int64(n), payload: e.Buf, sites: e.Sites})
			left -= n
		}
		a.file = ref.WriteContainer(ref.Magic, ref.StdMeta(a.schemaJSON, a.codec), a.sync, blocks)
		c, err := ref.ParseContainer(a.file)
		if err != nil {
			return nil, err
		}
		a.cont = c
	default:
		return nil, fmt.Errorf("unknown source %q", pl.Src)
	}
	for _, b := range a.blocks {
		a.decompSum += len(b.payload)
	}
	return a, nil
}

// render builds a container file from (possibly modified) parts.
func (a *c06Artifact) render(schemaJSON string, blocks []c06Block, stale map[int]int64) []byte {
	var bs []ref.BlockSpec
	for j, b := range blocks {
		stored, err := ref.Compress(a.codec, b.payload)
		if err != nil {
			stored = b.payload
		}
		spec := ref.BlockSpec{Count: b.count, Stored: stored}
		if s, ok := stale[j]; ok {
			s := s
			spec.DeclaredSize = &s
		}
		bs = append(bs, spec)
	}
	return ref.WriteContainer(ref.Magic, ref.StdMeta(schemaJSON, a.codec), a.sync, bs)
}

// ---------------------------------------------------------------------------
// Replacement classes

var varClasses = []string{"neg1", "negbig", "zero", "one", "maxi32", "maxi32+1", "mini32-1", "maxi64", "mini64", "overflow10", "varint11", "unterminated", "plus1", "minus1", "2^20", "2^40", "negate", "pairbig", "2^61", "2^62", "2^61+1", "2^60+1", "-2^61", "2^62+2"}
var bodyClasses = []string{"random", "truncate", "timestamp", "timestamp2"}

func isVarSite(kind string) bool {
	switch kind {
	case "long", "int", "str-len", "bytes-len", "arr-count", "arr-bsize", "arr-end", "map-count", "map-bsize", "map-end", "key-len", "union-sel":
		return true
	}
	return false
}

func varReplacement(class string, old []byte) []byte {
	cur := int64(0)
	if v, err := (&ref.Dec{Buf: old}).Decode(ref.Prim("long")); err == nil {
		cur = v.(int64)
	}
	L := func(v int64) []byte { return ref.AppendLong(nil, v) }
	switch class {
	case "neg1":
		return L(-1)
	case "negbig":
		return L(-(1 << 33))
	case "zero":
		return L(0)
	case "one":
		return L(1)
	case "maxi32":
		return L(math.MaxInt32)
	case "maxi32+1":
		return L(math.MaxInt32 + 1)
	case "mini32-1":
		return L(math.MinInt32 - 1)
	case "maxi64":
		return L(math.MaxInt64)
	case "mini64":
		return L(math.MinInt64)
	case "overflow10":
		return []byte{0xff, 0xff, 0xff, 0xff, 0xff, 0xff, 0xff, 0xff, 0xff, 0x7f}
	case "varint11":
		return []byte{0x80, 0x80, 0x80, 0x80, 0x80, 0x80, 0x80, 0x80, 0x80, 0x80, 0x01}
	case "unterminated":
		out := append([]byte{}, old...)
		out[len(out)-1] |= 0x80
		return out
	case "plus1":
		return L(cur + 1)
	case "minus1":
		return L(cur - 1)
	case "2^20":
		return L(1 << 20)
	case "2^40":
		return L(1 << 40)
	case "negate":
		return L(-cur)
	// counts and lengths whose product with an item width (4, 8, 16, 24, ...)
	// wraps around 64 bits to nothing or next to nothing
	case "2^61":
		return L(1 << 61)
	case "2^62":
		return L(1 << 62)
	case "2^61+1":
		return L(1<<61 + 1)
	case "2^60+1":
		return L(1<<60 + 1)
	case "-2^61":
		return L(-(1 << 61))
	case "2^62+2":
		return L(1<<62 + 2)
	}
	return old
}

// applyField rewrites one field site of one block payload. It returns the new
// payload and a description.
func applyField(payload []byte, s ref.Site, f C06Fault) ([]byte, string) {
	old := payload[s.Off : s.Off+s.Len]
	var repl []byte
	class := f.Class
	if class == "pairbig" {
		// Two cooperating fields: a sized block's count AND its byte size are
		// both rewritten to the same large value (each alone is bounded by the
		// other in a careful decoder). On any other site: a plain large value.
		n := int64(1) << uint(20+f.Val%8)
		if s.Kind == "arr-count" || s.Kind == "map-count" {
			rest := payload[s.Off+s.Len:]
			d := &ref.Dec{Buf: rest}
			if cur, err := (&ref.Dec{Buf: old}).Decode(ref.Prim("long")); err == nil && cur.(int64) < 0 {
				if _, err := d.Decode(ref.Prim("long")); err == nil { // the byte size that follows
					out := append([]byte{}, payload[:s.Off]...)
					out = ref.AppendLong(out, -n)
					out = ref.AppendLong(out, n)
					out = append(out, rest[d.Pos:]...)
					return out, fmt.Sprintf("%s+bsize@%s:=pairbig(2^%d)", s.Kind, s.Path, 20+f.Val%8)
				}
			}
		}
		out := append([]byte{}, payload[:s.Off]...)
		out = ref.AppendLong(out, n)
		out = append(out, payload[s.Off+s.Len:]...)
		return out, fmt.Sprintf("%s@%s:=2^%d", s.Kind, s.Path, 20+f.Val%8)
	}
	if isVarSite(s.Kind) {
		repl = varReplacement(class, old)
	} else {
		switch class {
		case "truncate":
			k := 0
			if s.Len > 0 {
				k = f.Val % s.Len
			}
			repl = old[:k]
		case "timestamp", "timestamp2":
			// replace a string body by a nasty timestamp text, length prefix recomputed
			t := timeDict[f.Val%len(timeDict)]
			if class == "timestamp2" {
				t = timeText2(f.Val)
			}
			if s.Kind == "str-body" {
				// find the length prefix just before the body: rewrite both
				p := s.Off - 1
				for p > 0 && payload[p-1]&0x80 != 0 {
					p--
				}
				out := append([]byte{}, payload[:p]...)
				out = ref.AppendLong(out, int64(len(t)))
				out = append(out, t...)
				out = append(out, payload[s.Off+s.Len:]...)
				if class == "timestamp2" {
					return out, fmt.Sprintf("%s@%s:=timestamp2[%s]", s.Kind, s.Path, timeText2Kind(f.Val))
				}
				return out, fmt.Sprintf("%s@%s:=timestamp[%d]", s.Kind, s.Path, f.Val%len(timeDict))
			}
			repl = []byte(t)
		default: // random
			repl = make([]byte, s.Len)
			x := uint64(f.Val)*2654435761 + 12345
			for i := range repl {
				x = splitmix(x)
				repl[i] = byte(x)
			}
			class = "random"
		}
	}
	out := append([]byte{}, payload[:s.Off]...)
	out = append(out, repl...)
	out = append(out, payload[s.Off+s.Len:]...)
	return out, fmt.Sprintf("%s@%s:=%s", s.Kind, s.Path, class)
}

// header varint sites of a container: offsets and lengths
type hsite struct {
	off, n int
	kind   string
}

func headerSites(c *ref.Container, file []byte) []hsite {
	vlen := func(off int) int {
		n := 1
		for off+n-1 < len(file) && file[off+n-1]&0x80 != 0 {
			n++
		}
		return n
	}
	var hs []hsite
	hs = append(hs, hsite{c.MetaCountAt, vlen(c.MetaCountAt), "meta-count"})
	for _, m := range c.Meta {
		hs = append(hs, hsite{m.KeyLenOff, vlen(m.KeyLenOff), "meta-key-len"}, hsite{m.ValLenOff, vlen(m.ValLenOff), "meta-val-len"})
	}
	hs = append(hs, hsite{c.MetaEndAt, vlen(c.MetaEndAt), "meta-end"})
	for _, b := range c.Blocks {
		hs = append(hs, hsite{b.Start, vlen(b.Start), "block-count"}, hsite{b.SizeOff, vlen(b.SizeOff), "block-size"})
	}
	return hs
}

var schemaTokens = []string{`"fixed"`, `"array"`, `"map"`, `"enum"`, `"record"`, `"union"`, `"null"`, `"long"`, `"int"`, `"string"`, `"bytes"`, `"boolean"`, `"float"`, `"double"`, `"type"`, `"items"`, `"values"`, `"fields"`, `"size"`, `"name"`, `[`, `]`, `{`, `}`, `:`, `,`, `-1`, `99999999999999999999`, `1e309`, `null`, `true`, `""`, `"\ud800"`, `{"type":"fixed","name":"q","size":-5}`, `{"type":"fixed","name":"q","size":4294967296}`, `{"type":"array"}`, `{"type":"map"}`, `{"type":"record"}`, `{"type":"fixed"}`, `[[]]`, `[[["long"]]]`, `{"type":{"type":"long"}}`}

var retypeNames = []string{"null", "boolean", "int", "long", "float", "double", "bytes", "string", "fixed", "array", "map", "enum", "record", "union", "date"}

// declaredNames lists every "name" value of the schema text in order of
// appearance (record, fixed and field names alike).
func declaredNames(js string) []string {
	var out []string
	const key = `"name":"`
	for i := 0; ; {
		j := strings.Index(js[i:], key)
		if j < 0 {
			return out
		}
		i += j + len(key)
		e := strings.IndexByte(js[i:], '"')
		if e < 0 {
			return out
		}
		out = append(out, js[i:i+e])
		i += e
	}
}

// typeTokenSites lists the offsets of every quoted primitive type name in
// schema text (the places where a field's type can be swapped for another).
func typeTokenSites(js string) [][2]int {
	var out [][2]int
	for i := 0; i < len(js); i++ {
		if js[i] != '"' {
			continue
		}
		j := i + 1
		for j < len(js) && js[j] != '"' {
			j++
		}
		if j >= len(js) {
			break
		}
		switch js[i+1 : j] {
		case "null", "boolean", "int", "long", "float", "double", "bytes", "string":
			// only when used as a value (after ':' or inside a union), not as a key
			k := j + 1
			for k < len(js) && js[k] == ' ' {
				k++
			}
			if k >= len(js) || js[k] != ':' {
				out = append(out, [2]int{i, j + 1})
			}
		}
		i = j
	}
	return out
}

// damageSchema applies one token-level mutation to schema JSON text.
func damageSchema(js string, f C06Fault) (string, string) {
	if len(js) == 0 {
		return js, "schema:empty"
	}
	b := []byte(js)
	pos := int(f.Off) % len(b)
	if f.Class == "nameref" {
		// a field's type becomes a reference by name to a named type of the same
		// schema — the enclosing record itself (a linked list, legal Avro), an
		// earlier or a later definition, or a name that is only a field name.
		names := declaredNames(js)
		sites := typeTokenSites(js)
		if len(names) > 0 && len(sites) > 0 {
			st := sites[int(f.Off)%len(sites)]
			nn := names[int(f.Site)%len(names)]
			var tok string
			switch f.Val % 4 {
			case 0:
				tok = `"` + nn + `"`
			case 1:
				tok = `["null","` + nn + `"]`
			case 2:
				tok = `{"type":"array","items":"` + nn + `"}`
			default:
				tok = `{"type":"map","values":["null","` + nn + `"]}`
			}
			return js[:st[0]] + tok + js[st[1]:], "schema:nameref:" + nn + fmt.Sprintf("/%d", f.Val%4)
		}
	}
	if f.Class == "retype" || f.Val%6 == 5 {
		sites := typeTokenSites(js)
		if len(sites) > 0 {
			st := sites[int(f.Off)%len(sites)]
			nn := retypeNames[int(f.Site)%len(retypeNames)]
			return js[:st[0]] + `"` + nn + `"` + js[st[1]:], "schema:retype:" + js[st[0]+1:st[1]-1] + "->" + nn
		}
	}
	switch f.Val % 5 {
	case 0: // replace the quoted token at/after pos
		i := pos
		for i < len(b) && b[i] != '"' {
			i++
		}
		j := i + 1
		for j < len(b) && b[j] != '"' {
			j++
		}
		if j < len(b) {
			tok := schemaTokens[int(f.Site)%len(schemaTokens)]
			return string(b[:i]) + tok + string(b[j+1:]), "schema:replace-token:" + tok
		}
		return string(b[:pos]), "schema:truncate"
	case 1: // insert a token
		tok := schemaTokens[int(f.Site)%len(schemaTokens)]
		return string(b[:pos]) + tok + string(b[pos:]), "schema:insert:" + tok
	case 2: // delete a span
		n := 1 + f.Len%12
		if pos+n > len(b) {
			n = len(b) - pos
		}
		return string(b[:pos]) + string(b[pos+n:]), "schema:delete-span"
	case 3: // truncate
		return string(b[:pos]), "schema:truncate"
	default: // replace the whole schema by a small nasty one
		tok := schemaTokens[int(f.Site)%len(schemaTokens)]
		return `{"type":"record","name":"x","fields":[{"name":"a","type":` + tok + `}]}`, "schema:whole:" + tok
	}
}

// ---------------------------------------------------------------------------
// Measuring one call

var allocSample = []metrics.Sample{{Name: "/gc/heap/allocs:bytes"}}

func allocBytes() uint64 {
	metrics.Read(allocSample)
	return allocSample[0].Value.Uint64()
}

type c06Outcome struct {
	err    error
	pan    any
	site   string
	alloc  uint64
	dur    time.Duration
	nDeliv int
}

func c06Call(f func() (int, error)) (o c06Outcome) {
	a0 := allocBytes()
	t0 := time.Now()
	func() {
		defer func() {
			if r := recover(); r != nil {
				o.pan, o.site = r, panicSite()
			}
		}()
		o.nDeliv, o.err = f()
	}()
	o.dur = time.Since(t0)
	o.alloc = allocBytes() - a0
	return o
}

func c06ReadFile(target reflect.Type, rd avro.Reader) (int, error) {
	n := 0
	err := avro.ReadFile(rd, reflect.New(target).Elem().Interface(), func(val unsafe.Pointer, rb *avro.ResourceBank) error {
		n++
		rb.Close()
		return nil
	})
	return n, err
}

// ---------------------------------------------------------------------------

func (c06Prop) Generate(seed uint64, idx int, tier string) *Plan {
	r := NewRng(seed, uint64(idx)<<8|0x06)
	pl := &C06Plan{Chunks: genChunks(r)}
	if r.P(2, 5) {
		pl.Src = "file"
		fs := genFileSpec(r, typeNames(nil), true, 8)
		if fs.VClass > 1 {
			fs.VClass = 1
		}
		if fs.N == 0 {
			fs.N = r.Range(1, 5)
			if fs.Writer == "ref" {
				fs.Parts = []int{fs.N}
			}
		}
		// the reference writer gives a field map: prefer it
		pl.File = fs
	} else {
		pl.Src = "wire"
		pl.Wire = r.PickInt([]int{0, 1, 1, 1, 2, 2, 2, 3, 3, 3, 4, 4, 5, 6, 6, 7, 7}) // W0 (zero-width items, known finding D11) less often
		pl.WSeed = r.Uint64()
		pl.WN = r.Range(1, 6)
		pl.WCodec = r.Pick([]string{"null", "null", "null", "deflate", "snappy", "none"})
		pl.WParts = r.Range(1, 3)
		if pl.Wire == 5 && r.P(1, 2) {
			pl.WN = r.Range(300, 800)
			pl.WParts = r.PickInt([]int{50, 200, 1000})
		}
	}
	if pl.Src == "file" && pl.File.Type == "Empty" && r.P(3, 4) {
		pl.File.Type = "Flat"
		pl.File.Writer = "enc"
		pl.File.Parts = nil
		if pl.File.Codec == "none" {
			pl.File.Codec = "null"
		}
	}
	enumEvery, enumCap := 12, 6000
	if tier != "thorough" {
		enumEvery, enumCap = 30, 1500
	}
	pl.EnumCap = enumCap
	if pl.Src == "file" && r.P(1, 16) && idx%enumEvery != enumEvery-1 {
		pl.File = genBigFileSpec(r) // blocks larger than the reader's chunk size
	}
	if idx%enumEvery == enumEvery-1 {
		if pl.Src == "wire" && pl.Wire == 5 {
			pl.Wire = 1
		}
		pl.Enum = true
		if pl.Src == "wire" {
			pl.WN = r.Range(1, 2)
			pl.WCodec = r.Pick([]string{"null", "null", "deflate", "snappy"})
		}
		return &Plan{Prop: "C06", Seed: seed, Idx: idx, Tier: tier, C06: pl}
	}
	ncases := 40
	for i := 0; i < ncases; i++ {
		var c C06Case
		nf := r.PickInt([]int{1, 1, 1, 1, 2, 2, 3})
		for k := 0; k < nf; k++ {
			c.Faults = append(c.Faults, genC06Fault(r))
		}
		pl.Cases = append(pl.Cases, c)
	}
	// the timestamp parser as an entry point of its own: texts with one
	// component at or beyond a boundary, one text per case
	for i := 0; i < 24; i++ {
		f := C06Fault{Kind: "timetext", Val: r.Intn(1 << 16)}
		if r.P(1, 6) {
			f.Class = "dict"
		}
		pl.Cases = append(pl.Cases, C06Case{Faults: []C06Fault{f}})
	}
	return &Plan{Prop: "C06", Seed: seed, Idx: idx, Tier: tier, C06: pl}
}

func genC06Fault(r *Rng) C06Fault {
	f := C06Fault{Off: r.Uint32(), Site: r.Uint32(), Val: r.Intn(1 << 16), Block: r.Intn(8)}
	x := r.Intn(100)
	switch {
	case x < 44:
		f.Kind = "field"
		if r.P(3, 4) {
			f.Class = r.Pick(varClasses)
		} else {
			f.Class = r.Pick(bodyClasses)
		}
		f.Raw = r.P(1, 3)
	case x < 54:
		f.Kind = "hfield"
		f.Class = r.Pick(varClasses)
	case x < 61:
		f.Kind = "flip"
		f.Val = r.Intn(8)
	case x < 68:
		f.Kind = "byte"
		f.Val = r.PickInt([]int{0, 1, 2, 0x7f, 0x80, 0xff, r.Intn(256)})
	case x < 72:
		f.Kind = "zero"
		f.Len = r.PickInt([]int{1, 4, 16, 64, 512})
	case x < 76:
		f.Kind = "junk"
		f.Len = r.PickInt([]int{1, 4, 16, 64, 512})
	case x < 80:
		f.Kind = "dup"
		f.Len = r.PickInt([]int{1, 3, 16, 100})
	case x < 84:
		f.Kind = "drop"
		f.Len = r.PickInt([]int{1, 3, 16, 100})
	case x < 89:
		f.Kind = "trunc"
	case x < 93:
		f.Kind = "rerr"
	default:
		f.Kind = "schema"
		f.Len = r.Intn(64)
		if r.P(1, 5) {
			f.Class = "nameref"
		}
	}
	return f
}

type c06Damaged struct {
	file      []byte
	payloads  [][]byte // damaged block bodies for the record-level entries (field faults only)
	counts    []int64
	rerr      int // read error index, -1 none
	desc      []string
	kinds     []string // signature parts: kind/sitekind/class/variant
	effective bool
	schema    string
	timeTexts []string // "timetext" faults: texts offered to the timestamp entry point instead of a damaged artifact
}

// applyCase builds the damaged artifact for one case.
func (a *c06Artifact) applyCase(c C06Case) c06Damaged {
	d := c06Damaged{rerr: -1}
	blocks := append([]c06Block{}, a.blocks...)
	schemaJSON := a.schemaJSON
	stale := map[int]int64{}
	structural := false
	// 1. structure-aware faults first (they rebuild the file)
	for _, f := range c.Faults {
		switch f.Kind {
		case "field":
			if len(blocks) == 0 {
				continue
			}
			j := f.Block % len(blocks)
			if len(a.blocks[j].sites) == 0 {
				continue
			}
			s := a.blocks[j].sites[int(f.Site)%len(a.blocks[j].sites)]
			if len(blocks[j].payload) != len(a.blocks[j].payload) {
				continue // a previous fault already moved this block's offsets
			}
			cls := f.Class
			if isVarSite(s.Kind) && !contains(varClasses, cls) {
				cls = varClasses[f.Val%len(varClasses)]
			} else if !isVarSite(s.Kind) && !contains(bodyClasses, cls) {
				cls = bodyClasses[f.Val%len(bodyClasses)]
			}
			f.Class = cls
			np, desc := applyField(blocks[j].payload, s, f)
			variant := "consistent"
			if f.Raw && (a.codec == "null" || a.codec == "none") {
				stale[j] = int64(len(a.blocks[j].payload))
				variant = "raw"
			}
			blocks[j] = c06Block{count: blocks[j].count, payload: np}
			d.payloads = append(d.payloads, np)
			d.counts = append(d.counts, blocks[j].count)
			zw := ""
			if s.ZeroWidthItems {
				zw = "/zero-width-items"
			}
			d.desc = append(d.desc, fmt.Sprintf("block %d %s (%s)", j, desc, variant))
			d.kinds = append(d.kinds, fmt.Sprintf("field/%s%s/%s/%s", s.Kind, zw, cls, variant))
			structural = true
			d.effective = true
		case "timetext":
			t, kind := timeTextFor(f)
			d.timeTexts = append(d.timeTexts, t)
			d.desc = append(d.desc, fmt.Sprintf("timestamp text %q", t))
			d.kinds = append(d.kinds, "timetext/"+kind)
			d.effective = true
		case "schema":
			var desc string
			schemaJSON, desc = damageSchema(schemaJSON, f)
			d.desc = append(d.desc, desc)
			d.kinds = append(d.kinds, "schema/"+desc[:min(len(desc), 24)])
			structural = true
			d.effective = true
		}
	}
	file := a.file
	cont := a.cont
	if structural {
		file = a.render(schemaJSON, blocks, stale)
		cont = nil
	}
	file = append([]byte{}, file...)
	// 2. byte-level faults on the (re)built file
	for _, f := range c.Faults {
		if len(file) == 0 {
			break
		}
		off := int(f.Off) % len(file)
		switch f.Kind {
		case "hfield":
			if cont == nil {
				if c2, err := ref.ParseContainer(file); err == nil {
					cont = c2
				} else {
					continue
				}
			}
			hs := headerSites(cont, file)
			h := hs[int(f.Site)%len(hs)]
			cls := f.Class
			if !contains(varClasses, cls) {
				cls = varClasses[f.Val%len(varClasses)]
			}
			repl := varReplacement(cls, file[h.off:h.off+h.n])
			nf := append([]byte{}, file[:h.off]...)
			nf = append(nf, repl...)
			nf = append(nf, file[h.off+h.n:]...)
			file = nf
			cont = nil
			d.desc = append(d.desc, fmt.Sprintf("%s@%d:=%s", h.kind, h.off, cls))
			d.kinds = append(d.kinds, fmt.Sprintf("hfield/%s/%s", h.kind, cls))
			d.effective = true
		case "flip":
			file[off] ^= 1 << uint(f.Val%8)
			d.desc = append(d.desc, fmt.Sprintf("flip@%d.%d", off, f.Val%8))
			d.kinds = append(d.kinds, "flip/"+c06Region(a, off, len(file)))
			d.effective = true
			cont = nil
		case "byte":
			if file[off] != byte(f.Val) {
				d.effective = true
			}
			file[off] = byte(f.Val)
			d.desc = append(d.desc, fmt.Sprintf("byte@%d:=%#x", off, byte(f.Val)))
			d.kinds = append(d.kinds, "byte/"+c06Region(a, off, len(file)))
			cont = nil
		case "zero", "junk":
			n := min(f.Len, len(file)-off)
			x := uint64(f.Val) + 99
			for i := 0; i < n; i++ {
				if f.Kind == "zero" {
					file[off+i] = 0
				} else {
					x = splitmix(x)
					file[off+i] = byte(x)
				}
			}
			d.desc = append(d.desc, fmt.Sprintf("%s@%d+%d", f.Kind, off, n))
			d.kinds = append(d.kinds, f.Kind+"/"+c06Region(a, off, len(file)))
			d.effective = true
			cont = nil
		case "dup":
			n := min(f.Len, len(file)-off)
			nf := append([]byte{}, file[:off+n]...)
			nf = append(nf, file[off:]...)
			file = nf
			d.desc = append(d.desc, fmt.Sprintf("dup@%d+%d", off, n))
			d.kinds = append(d.kinds, "dup/"+c06Region(a, off, len(file)))
			d.effective = true
			cont = nil
		case "drop":
			n := min(f.Len, len(file)-off)
			file = append(append([]byte{}, file[:off]...), file[off+n:]...)
			d.desc = append(d.desc, fmt.Sprintf("drop@%d+%d", off, n))
			d.kinds = append(d.kinds, "drop/"+c06Region(a, off, len(file)))
			d.effective = true
			cont = nil
		case "trunc":
			file = file[:off]
			d.desc = append(d.desc, fmt.Sprintf("trunc@%d", off))
			d.kinds = append(d.kinds, "trunc/"+c06Region(a, off, len(file)))
			d.effective = true
			cont = nil
		case "rerr":
			d.rerr = int(f.Off % 97)
			d.desc = append(d.desc, fmt.Sprintf("rerr@%d", d.rerr))
			d.kinds = append(d.kinds, "rerr")
		}
	}
	d.file = file
	d.schema = schemaJSON
	return d
}

func contains(ss []string, s string) bool {
	for _, x := range ss {
		if x == s {
			return true
		}
	}
	return false
}

// c06Region names the region of the intact file an offset falls in (coarse).
func c06Region(a *c06Artifact, off, n int) string {
	c := a.cont
	switch {
	case off < 4:
		return "magic"
	case off < c.HdrEnd:
		for _, m := range c.Meta {
			if off >= m.KeyLenOff && off < m.End {
				if off >= m.ValOff && m.Key == "avro.schema" {
					return "schema-text"
				}
				return "meta"
			}
		}
		if off >= c.SyncOff {
			return "hdr-sync"
		}
		return "meta"
	}
	for _, b := range c.Blocks {
		if off < b.End {
			switch {
			case off < b.PayloadOff:
				return "block-header"
			case off < b.PayloadEnd:
				return "payload"
			}
			return "sync"
		}
	}
	return "tail"
}

// c06EnumCases enumerates every (field site x replacement class x variant),
// every (schema type token x replacement type) and every (header varint x
// class) of an artifact. It is a pure function of the plan.
func c06EnumCases(a *c06Artifact, pl *C06Plan) []C06Case {
	var cases []C06Case
	for j, b := range a.blocks {
		for si, s := range b.sites {
			classes := bodyClasses
			if isVarSite(s.Kind) {
				classes = varClasses
			}
			for ci, cls := range classes {
				for _, raw := range []bool{false, true} {
					if raw && a.codec != "null" && a.codec != "none" {
						continue
					}
					cases = append(cases, C06Case{Faults: []C06Fault{{Kind: "field", Block: j, Site: uint32(si), Class: cls, Raw: raw, Val: si*7 + ci}}})
				}
			}
		}
	}
	for si := range typeTokenSites(a.schemaJSON) {
		for ni := range retypeNames {
			cases = append(cases, C06Case{Faults: []C06Fault{{Kind: "schema", Class: "retype", Off: uint32(si), Site: uint32(ni)}}})
		}
	}
	for si := range typeTokenSites(a.schemaJSON) {
		for ni := range declaredNames(a.schemaJSON) {
			cases = append(cases, C06Case{Faults: []C06Fault{{Kind: "schema", Class: "nameref", Off: uint32(si), Site: uint32(ni), Val: si + ni}}})
		}
	}
	hs := headerSites(a.cont, a.file)
	for hi := range hs {
		for _, cls := range varClasses {
			cases = append(cases, C06Case{Faults: []C06Fault{{Kind: "hfield", Site: uint32(hi), Class: cls}}})
		}
	}
	if ecap := max(pl.EnumCap, 200); len(cases) > ecap {
		// keep an even spread over sites rather than a prefix
		step := float64(len(cases)) / float64(ecap)
		var kept []C06Case
		for i := 0; i < ecap; i++ {
			kept = append(kept, cases[int(float64(i)*step)])
		}
		cases = kept
	}
	return cases
}

func (c06Prop) CPUBudget() time.Duration {
	if os.Getenv("VERIF_TIER") == "quick" {
		return 5 * time.Second // typical case: microseconds to milliseconds
	}
	return 8 * time.Second
}

// zeroWidthPossible reports whether items that occupy no bytes on the wire can
// occur when case k of the plan is read: the artifact's schema has arrays of
// null / of empty records or is itself an empty record, or the case damages
// the schema text (which can turn any item type into one). This is the input
// class of known finding D11 (unbounded count of zero-width items).
func c06ZeroWidthPossible(pl *C06Plan, k int) bool {
	// a case that only offers texts to the timestamp parser involves no items at all
	if !pl.Enum && k >= 0 && k < len(pl.Cases) && len(pl.Cases[k].Faults) > 0 {
		onlyTime := true
		for _, f := range pl.Cases[k].Faults {
			onlyTime = onlyTime && f.Kind == "timetext"
		}
		if onlyTime {
			return false
		}
	}
	if pl.Src == "wire" && wires[pl.Wire%len(wires)].Name == "W0" {
		return true
	}
	if pl.Src == "file" && pl.File.Type == "Empty" {
		return true
	}
	if cases := c06Cases(pl); k >= 0 && k < len(cases) {
		pl = &C06Plan{Src: pl.Src, File: pl.File, Wire: pl.Wire, WSeed: pl.WSeed, WN: pl.WN, WCodec: pl.WCodec, WParts: pl.WParts, Chunks: pl.Chunks, Cases: cases}
		for _, f := range pl.Cases[k].Faults {
			if f.Kind == "schema" {
				return true
			}
		}
		// byte-level damage may also land in the header's schema text: compare
		// everything up to the end of the schema entry with the intact file.
		a, err := c06BuildArtifact(pl)
		if err != nil {
			return false
		}
		end := a.cont.HdrEnd
		for _, m := range a.cont.Meta {
			if m.Key == "avro.schema" {
				end = m.End
			}
		}
		d := a.applyCase(pl.Cases[k])
		if len(d.file) < end || string(d.file[:end]) != string(a.file[:end]) {
			return true
		}
	}
	return false
}

const siteZeroWidth = "zero-width-items-possible"

func (c06Prop) ClassifyDeath(p *Plan, k int) string {
	if p.C06 != nil && c06ZeroWidthPossible(p.C06, k) {
		return siteZeroWidth
	}
	return ""
}

func (c06Prop) WithoutCase(p *Plan, k int) *Plan {
	if p.C06 == nil {
		return nil
	}
	cases := c06Cases(p.C06)
	if k < 0 || k >= len(cases) || len(cases) <= 1 {
		return nil
	}
	q := p.clone()
	q.C06.Enum = false
	q.C06.Cases = append(append([]C06Case{}, cases[:k]...), cases[k+1:]...)
	return q
}

// c06Cases returns the plan's case list, enumerating it if necessary.
func c06Cases(pl *C06Plan) []C06Case {
	if !pl.Enum {
		return pl.Cases
	}
	a, err := c06BuildArtifact(pl)
	if err != nil {
		return nil
	}
	return c06EnumCases(a, pl)
}

func (c06Prop) NarrowCase(p *Plan, k int) *Plan {
	if p.C06 == nil {
		return nil
	}
	cases := c06Cases(p.C06)
	if k < 0 || k >= len(cases) {
		return nil
	}
	q := p.clone()
	q.C06.Enum = false
	q.C06.Cases = []C06Case{cases[k]}
	return q
}

func (c06Prop) Execute(p *Plan, run *Run) any {
	pl := p.C06
	a, err := c06BuildArtifact(pl)
	if err != nil {
		run.Probes.Inc("skipped:workload-unbuildable")
		run.Log.Add("skip")
		return map[string]any{"skipped": err.Error()}
	}
	// targets: full, projected, empty
	type tgt struct {
		name string
		typ  reflect.Type
	}
	targets := []tgt{{"full", a.target}}
	if a.target.NumField() >= 2 {
		targets = append(targets, tgt{"proj", projectedType(a.target)})
	}
	targets = append(targets, tgt{"empty", reflect.TypeFor[Empty]()})

	// sanity: the intact artifact must read (otherwise the workload is not valid)
	base := c06Call(func() (int, error) { return c06ReadFile(a.target, NewDiskReader(a.file, pl.Chunks)) })
	run.Evals++
	if base.pan != nil {
		// a valid artifact is a byte string too: reading it must not panic
		q := p.clone()
		q.C06.Cases, q.C06.Enum = nil, false
		run.Violation("c06/panic:"+panicClass(base.pan), base.site, fmt.Sprintf("reading the INTACT artifact (%d bytes, %s) panicked: %v", len(a.file), a.codec, base.pan), q)
		return nil
	}
	if base.pan != nil || base.err != nil {
		run.Probes.Inc("skipped:intact-artifact-does-not-read")
		run.Log.Add("skip intact")
		return map[string]any{"skipped": fmt.Sprint(base.err, base.pan)}
	}

	cases := pl.Cases
	if pl.Enum {
		cases = c06EnumCases(a, pl)
		run.Probes.Inc("enumerated-artifacts")
	}

	// 16 MiB of slack plus 200 bytes per byte of (input + decompressed) data. On
	// the unchanged tree the largest ratio measured for inputs of 32 KiB and more
	// is 26 bytes per byte (probe max-alloc-per-input-byte); a map entry of two
	// bytes legitimately costs 100-150 bytes. The first build used 1024, which a
	// reader allocating 1000x its input would still have passed.
	limit := func(inputLen int) uint64 { return 16<<20 + 200*uint64(inputLen+a.decompSum) }
	var schema avro.Schema
	schemaOK := false
	if s, err := avro.SchemaFromString(a.schemaJSON); err == nil {
		schema, schemaOK = s, true
	}

	judge := func(k int, c C06Case, entry, tname string, d *c06Damaged, o c06Outcome, inputLen int) bool {
		run.Evals++
		narrow := func() *Plan {
			q := p.clone()
			q.C06.Enum = false
			q.C06.Cases = []C06Case{c}
			return q
		}
		what := fmt.Sprintf("case %d [%s] -> %s(%s)", k, joinMax(d.desc, 6), entry, tname)
		for _, kd := range d.kinds {
			run.Sig("%s|%s|%s|%s", entry, kd, a.codec, tname)
		}
		tick()
		if o.pan != nil {
			run.Violation("c06/panic:"+panicClass(o.pan), o.site, fmt.Sprintf("%s: panic: %v", what, o.pan), narrow())
			return false
		}
		if o.alloc > limit(inputLen) {
			site := entry
			if c06ZeroWidthPossible(pl, kIndexOf(pl, k)) {
				site = siteZeroWidth
			}
			run.Violation("c06/runaway-allocation", site, fmt.Sprintf("%s: allocated %d bytes for %d input bytes (%d decompressed); bound %d", what, o.alloc, inputLen, a.decompSum, limit(inputLen)), narrow())
			return false
		}
		if o.err != nil {
			run.Probes.Inc("err:" + normMsg(o.err.Error()))
		} else {
			run.Probes.Inc("damage-read-without-error")
		}
		if o.alloc > 1<<20 {
			run.Probes.Inc("call-allocated>1MiB")
		}
		if n := inputLen + a.decompSum; n >= 32<<10 {
			if ratio := int(o.alloc / uint64(n)); ratio > run.Probes["max-alloc-per-input-byte(inputs>=32KiB)"] {
				run.Probes["max-alloc-per-input-byte(inputs>=32KiB)"] = ratio
			}
		}
		return true
	}

	executedCases := 0
	for k, c := range cases {
		d := a.applyCase(c)
		fmt.Fprintf(os.Stderr, "@@CASE %d %s\n", k, joinMax(d.desc, 6))
		if os.Getenv("VERIF_EXPLAIN") != "" {
			fmt.Fprintf(os.Stderr, "@@SCHEMA %s\n@@FILE %x\n", d.schema, d.file)
		}
		if !d.effective && d.rerr < 0 {
			run.Probes.Inc("case-without-effect")
			continue
		}
		executedCases++
		for _, kd := range d.kinds {
			run.Faults.Inc(faultKindOf(kd))
		}
		run.Log.Add("case %d len=%d", k, len(d.file))
		if d.timeTexts != nil {
			if timeTextCodec == nil {
				ts, err := avro.SchemaFromString(`{"type":"record","name":"TT","fields":[{"name":"t","type":"string"},{"name":"p","type":["null","string"]},{"name":"n","type":["null","string"]}]}`)
				if err == nil {
					timeTextCodec, err = ts.Codec(TimeTextT{})
				}
				if err != nil {
					run.Infra("time-text codec: " + err.Error())
					return nil
				}
			}
			for _, t := range d.timeTexts {
				body := timeTextBody(t)
				o := c06Call(func() (int, error) {
					rb := avro.NewReadBuf(body)
					defer func() { rb.ExtractResourceBank().Close() }()
					var out TimeTextT
					if err := timeTextCodec.Read(rb, unsafe.Pointer(&out)); err != nil {
						return 0, err
					}
					return 1, nil
				})
				if !judge(k, c, "TimeCodec.Read", "time", &d, o, len(body)) {
					return nil
				}
			}
			continue
		}
		for _, t := range targets {
			var o c06Outcome
			if d.rerr < 0 && pl.Chunks.Kind != "" {
				r := openReader(d.file, pl.Chunks)
				o = c06Call(func() (int, error) { return c06ReadFile(t.typ, r) })
			} else {
				rd := NewDiskReader(d.file, pl.Chunks)
				rd.ErrAt = d.rerr
				o = c06Call(func() (int, error) { return c06ReadFile(t.typ, rd) })
				if d.rerr >= 0 && rd.ErrFired {
					run.Faults.Inc("R-err(k)")
				}
			}
			if !judge(k, c, "ReadFile", t.name, &d, o, len(d.file)) {
				return nil
			}
		}
		// record-level entries on damaged block bodies
		if schemaOK {
			for bi, body := range d.payloads {
				for _, t := range targets[:min(2, len(targets))] {
					codec, err := schema.Codec(reflect.New(t.typ).Elem().Interface())
					if err != nil {
						continue
					}
					cnt := d.counts[bi]
					o := c06Call(func() (int, error) {
						rb := avro.NewReadBuf(body)
						defer func() { rb.ExtractResourceBank().Close() }()
						n := 0
						for i := int64(0); i < cnt; i++ {
							out := reflect.New(t.typ)
							if err := codec.Read(rb, out.UnsafePointer()); err != nil {
								return n, err
							}
							n++
						}
						return n, nil
					})
					if !judge(k, c, "Codec.Read", t.name, &d, o, len(body)) {
						return nil
					}
					o = c06Call(func() (int, error) {
						rb := avro.NewReadBuf(body)
						defer func() { rb.ExtractResourceBank().Close() }()
						n := 0
						for i := int64(0); i < cnt; i++ {
							if err := codec.Skip(rb); err != nil {
								return n, err
							}
							n++
						}
						return n, nil
					})
					if !judge(k, c, "Codec.Skip", t.name, &d, o, len(body)) {
						return nil
					}
				}
			}
		}
		heapHygiene() // collector is off: collect between cases once the heap is large
	}
	return map[string]any{"source": pl.Src, "file_len": len(a.file), "blocks": len(a.blocks), "codec": a.codec, "cases": len(cases), "cases_with_effect": executedCases, "enumerated": pl.Enum, "target": a.target.String()}
}

// kIndexOf maps an executed case index to an index into pl.Cases (none for
// enumerated plans).
func kIndexOf(pl *C06Plan, k int) int { return k }

func faultKindOf(kd string) string {
	for i := 0; i < len(kd); i++ {
		if kd[i] == '/' {
			switch kd[:i] {
			case "field":
				return "S-field"
			case "hfield":
				return "S-field(header varint)"
			case "schema":
				return "S-schema-text"
			}
			return "S-" + kd[:i]
		}
	}
	return "S-" + kd
}

func joinMax(ss []string, n int) string {
	out := ""
	for i, s := range ss {
		if i >= n {
			out += " …"
			break
		}
		if i > 0 {
			out += "; "
		}
		out += s
	}
	return out
}

func (c06Prop) Shrink(p *Plan) []*Plan {
	var out []*Plan
	mut := func(f func(q *C06Plan)) {
		q := p.clone()
		f(q.C06)
		out = append(out, q)
	}
	pl := p.C06
	n := len(pl.Cases)
	if n > 1 {
		mut(func(q *C06Plan) { q.Cases = q.Cases[:n/2] })
		mut(func(q *C06Plan) { q.Cases = q.Cases[n/2:] })
		if n <= 8 {
			for i := range pl.Cases {
				i := i
				mut(func(q *C06Plan) { q.Cases = []C06Case{q.Cases[i]} })
			}
		}
	}
	if n == 1 && len(pl.Cases[0].Faults) > 1 {
		for i := range pl.Cases[0].Faults {
			i := i
			mut(func(q *C06Plan) {
				fs := q.Cases[0].Faults
				q.Cases[0].Faults = append(append([]C06Fault{}, fs[:i]...), fs[i+1:]...)
			})
		}
	}
	if !(len(pl.Chunks.Sizes) == 1 && pl.Chunks.Sizes[0] == 1<<20) || pl.Chunks.EOFWith || pl.Chunks.ZeroAt != 0 {
		mut(func(q *C06Plan) { q.Chunks = ChunkSpec{Sizes: []int{1 << 20}} })
	}
	return out
}
