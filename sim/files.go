package main

import (
	crand "crypto/rand"
	"fmt"
	"reflect"
	"runtime"
	"runtime/metrics"
	"unsafe"

	"github.com/philpearl/avro"

	"verif/sim/ref"
)

// seededRand replaces crypto/rand.Reader for the whole worker so that the
// sync marker NewFileWriter draws is a function of the plan (seam S4).
type seededRand struct {
	state uint64
	// zeroTail: the next 16-byte draw (a sync marker) ends in this many zero
	// bytes. A marker is 16 arbitrary bytes; one in six plans uses a marker
	// with a zero tail (up to all sixteen), which a zero-initialised
	// comparison buffer would match after a short read.
	zeroTail int
}

func tailFor(seed uint64) int {
	if splitmix(seed^0x7a11)%6 != 0 {
		return 0
	}
	return 1 + int(splitmix(seed^0x7a12)%16)
}

// Read is //go:norace: under the race build several goroutines may create file
// writers; the token scheduler runs them one at a time, and the marker is
// masked out of every compared result there.
//
//go:norace
func (s *seededRand) Read(p []byte) (int, error) {
	for i := range p {
		s.state = splitmix(s.state)
		p[i] = byte(s.state >> 32)
	}
	if len(p) == 16 && s.zeroTail > 0 {
		for i := 16 - s.zeroTail; i < 16; i++ {
			p[i] = 0
		}
		s.zeroTail = 0
	}
	return len(p), nil
}

var pinnedRand = &seededRand{}

func installRandSeam() { crand.Reader = pinnedRand }

// pinSync makes the next marker drawn a function of seed.
func pinSync(seed uint64) {
	pinnedRand.state = splitmix(seed ^ 0x5151)
	pinnedRand.zeroTail = tailFor(seed)
}

func syncFromSeed(seed uint64) (s [16]byte) {
	r := seededRand{state: splitmix(seed ^ 0x5151), zeroTail: tailFor(seed)}
	r.Read(s[:])
	return
}

// FileSpec is the plan of one valid container file.
type FileSpec struct {
	Type   string `json:"type"`
	N      int    `json:"n"`
	VSeed  uint64 `json:"vseed"`
	VClass int    `json:"vclass"`
	Codec  string `json:"codec"`  // null | deflate | snappy | none (reference writer only)
	Writer string `json:"writer"` // enc | ref
	// enc
	BlockSize int   `json:"block_size,omitempty"`
	Flush     []int `json:"flush,omitempty"` // flush after the record with this index (ascending)
	// ref
	Parts      []int  `json:"parts,omitempty"` // records per block; zeros are empty blocks
	NullSecond bool   `json:"null_second,omitempty"`
	SplitMode  int    `json:"split_mode,omitempty"` // 0 single block; k>0: blocks of k items; negative: sized blocks of -k items
	SyncSeed   uint64 `json:"sync_seed"`
	// MetaSplit != 0 re-renders the header (either writer) with its metadata
	// map split over several map blocks, in a seeded order, optionally with
	// extra user entries: 1 schema|codec, 2 codec|schema, 3 user|schema|user|codec, 4 one block, extra entries.
	MetaSplit int `json:"meta_split,omitempty"`
	// PadLens (type Padded only): record i carries PadLens[i mod len] bytes of
	// padding — blocks far larger than any internal chunk or buffer size.
	PadLens []int `json:"pad_lens,omitempty"`
	// PadZero: the padding is all zeros (compresses at the codec's maximum ratio).
	PadZero bool `json:"pad_zero,omitempty"`
}

// BuiltFile is a generated artifact plus what the harness knows about it.
type BuiltFile struct {
	Spec   FileSpec
	Desc   *TypeDesc
	Bytes  []byte
	Values []reflect.Value // the values written (addressable)
	// reference-writer only:
	Schema   *ref.Schema
	Payloads [][]byte     // uncompressed payload per block
	Sites    [][]ref.Site // field map per block (offsets into Payloads[j])
	Counts   []int64
}

var codecNames = []string{"null", "deflate", "snappy"}

func genFileSpec(r *Rng, types []string, allowRef bool, maxN int) FileSpec {
	fs := FileSpec{
		Type:     r.Pick(types),
		VSeed:    r.Uint64(),
		VClass:   r.PickInt([]int{0, 0, 1, 1, 1, 2, 2, 3}),
		Codec:    r.Pick(codecNames),
		SyncSeed: r.Uint64(),
	}
	fs.N = r.Range(0, maxN)
	if r.P(1, 3) {
		fs.N = r.Range(0, 4)
	}
	if r.P(1, 5) {
		fs.MetaSplit = r.Range(1, 4)
	}
	d := typeByName(fs.Type)
	// Types with multi-entry maps are always written by the reference writer
	// (sorted keys): the library's encoder emits map entries in Go's random
	// iteration order, which has no seam, so its output for such values is
	// not a function of the plan.
	if d.RefOnly || (allowRef && (d.HasMultiMap || r.P(1, 3))) {
		fs.Writer = "ref"
		if r.P(1, 4) {
			fs.Codec = "none"
		}
		// partition N records into blocks, with occasional empty blocks
		left := fs.N
		for left > 0 {
			c := r.Range(1, left)
			if r.P(1, 2) {
				c = r.Range(1, min(left, 3))
			}
			if r.P(1, 8) {
				fs.Parts = append(fs.Parts, 0)
			}
			fs.Parts = append(fs.Parts, c)
			left -= c
		}
		if r.P(1, 8) {
			fs.Parts = append(fs.Parts, 0)
		}
		fs.NullSecond = r.P(1, 3)
		switch r.Intn(4) {
		case 1:
			fs.SplitMode = r.Range(1, 3)
		case 2:
			fs.SplitMode = -r.Range(1, 3)
		}
	} else {
		fs.Writer = "enc"
		fs.BlockSize = r.PickInt([]int{0, 1, 7, 40, 200, 1000, 1 << 20})
		for i := 0; i < fs.N; i++ {
			if r.P(1, 7) {
				fs.Flush = append(fs.Flush, i)
			}
		}
	}
	return fs
}

// genBigFileSpec: a few records of 64 KiB .. 200 KB each, one per block, so that
// consecutive blocks exceed every internal chunk and buffer size.
func genBigFileSpec(r *Rng) FileSpec {
	fs := FileSpec{Type: "Padded", N: r.Range(2, 4), VSeed: r.Uint64(), Codec: r.Pick(codecNames), Writer: "enc", BlockSize: 1, SyncSeed: r.Uint64()}
	for i := 0; i < fs.N; i++ {
		fs.PadLens = append(fs.PadLens, r.PickInt([]int{70000, 66000, 65536, 131073, 200000, 65530, 5}))
	}
	fs.PadZero = r.P(1, 3)
	return fs
}

// BuildFile generates the artifact a FileSpec describes. The final Flush is
// always performed (the file is complete and valid).
func BuildFile(fs FileSpec) (*BuiltFile, error) {
	return BuildFileWith(fs, GenValues(typeByName(fs.Type).Type, fs.N, fs.VSeed, fs.VClass))
}

// BuildFileWith writes the given values instead of generating them (fs.N is
// ignored in favour of len(values)).
func BuildFileWith(fs FileSpec, values []reflect.Value) (*BuiltFile, error) {
	d := typeByName(fs.Type)
	fs.N = len(values)
	bf := &BuiltFile{Spec: fs, Desc: d}
	if fs.Type == "Padded" && len(fs.PadLens) > 0 {
		for i, v := range values {
			pad := make([]byte, fs.PadLens[i%len(fs.PadLens)])
			x := fs.VSeed + uint64(i)
			for k := range pad {
				if fs.PadZero {
					break
				}
				if k%64 == 0 {
					x = splitmix(x)
				}
				pad[k] = byte(x >> (uint(k%8) * 8)) // mildly compressible
			}
			v.Set(reflect.ValueOf(Padded{ID: int64(i) + 1, Pad: pad}))
		}
	}
	bf.Values = values
	switch fs.Writer {
	case "enc":
		if d.RefOnly {
			return nil, fmt.Errorf("type %s cannot be written by the encoder", fs.Type)
		}
		w := &DiskWriter{}
		pinSync(fs.SyncSeed)
		e, err := d.NewEnc(w, avro.Compression(fs.Codec), fs.BlockSize)
		if err != nil {
			return nil, fmt.Errorf("NewEncoderFor: %w", err)
		}
		fi := 0
		for i, v := range bf.Values {
			if err := e.Encode(v); err != nil {
				return nil, fmt.Errorf("Encode %d: %w", i, err)
			}
			if fi < len(fs.Flush) && fs.Flush[fi] == i {
				fi++
				if err := e.Flush(); err != nil {
					return nil, fmt.Errorf("Flush: %w", err)
				}
			}
		}
		if err := e.Flush(); err != nil {
			return nil, fmt.Errorf("Flush: %w", err)
		}
		bf.Bytes = w.Buf
	case "ref":
		s := SchemaOf(d.Type)
		uniqueFixedNames(s, map[string]int{})
		if fs.NullSecond {
			s = s.SwapNull()
		}
		bf.Schema = s
		var sp splitter
		if fs.SplitMode != 0 {
			k := fs.SplitMode
			sized := k < 0
			if sized {
				k = -k
			}
			sp = func(n int) ([]int, bool) {
				if n == 0 {
					return nil, false
				}
				var out []int
				for n > 0 {
					c := min(k, n)
					out = append(out, c)
					n -= c
				}
				return out, sized
			}
		}
		var blocks []ref.BlockSpec
		vi := 0
		parts := fs.Parts
		sum := 0
		for _, p := range parts {
			sum += p
		}
		if sum != fs.N {
			// repaired partition (after shrinking): everything in one block
			parts = nil
			if fs.N > 0 {
				parts = []int{fs.N}
			}
		}
		for _, p := range parts {
			e := &ref.Enc{}
			for k := 0; k < p; k++ {
				base := len(e.Buf)
				_ = base
				if err := e.Encode(s, ToDatum(s, bf.Values[vi], false, sp), fmt.Sprintf("r%d", vi)); err != nil {
					return nil, err
				}
				vi++
			}
			stored, err := ref.Compress(fs.Codec, e.Buf)
			if err != nil {
				return nil, err
			}
			blocks = append(blocks, ref.BlockSpec{Count: int64(p), Stored: stored})
			bf.Payloads = append(bf.Payloads, e.Buf)
			bf.Sites = append(bf.Sites, e.Sites)
			bf.Counts = append(bf.Counts, int64(p))
		}
		bf.Bytes = ref.WriteContainer(ref.Magic, ref.StdMeta(s.JSON(), fs.Codec), syncFromSeed(fs.SyncSeed), blocks)
	default:
		return nil, fmt.Errorf("unknown writer %q", fs.Writer)
	}
	if fs.MetaSplit != 0 {
		c, err := ref.ParseContainer(bf.Bytes)
		if err != nil {
			return nil, fmt.Errorf("meta split: %w", err)
		}
		var schemaKV, codecKV []ref.KV
		for _, m := range c.Meta {
			kv := ref.KV{Key: m.Key, Val: m.Val}
			if m.Key == "avro.codec" {
				codecKV = append(codecKV, kv)
			} else {
				schemaKV = append(schemaKV, kv)
			}
		}
		u1 := []ref.KV{{Key: "user.note", Val: []byte("written by the reference writer")}}
		u2 := []ref.KV{{Key: "user.empty", Val: nil}, {Key: "zz", Val: []byte{0, 1, 2, 0xff}}}
		var groups [][]ref.KV
		switch fs.MetaSplit {
		case 1:
			groups = [][]ref.KV{schemaKV, codecKV}
		case 2:
			groups = [][]ref.KV{codecKV, schemaKV}
		case 3:
			groups = [][]ref.KV{u1, schemaKV, u2, codecKV}
		default:
			groups = [][]ref.KV{append(append(append([]ref.KV{}, u1...), schemaKV...), append(codecKV, u2...)...)}
		}
		var blocks []ref.BlockSpec
		for _, bl := range c.Blocks {
			blocks = append(blocks, ref.BlockSpec{Count: bl.Count, Stored: bf.Bytes[bl.PayloadOff:bl.PayloadEnd]})
		}
		bf.Bytes = ref.WriteContainerMeta(ref.Magic, groups, c.Sync, blocks)
	}
	return bf, nil
}

var heapSample = []metrics.Sample{{Name: "/memory/classes/heap/objects:bytes"}}

// heapHygiene: workers run with the collector off; a property whose plans may
// legitimately allocate a lot per execution collects between executions
// (never inside one) once the heap has grown large.
func heapHygiene() {
	metrics.Read(heapSample)
	if heapSample[0].Value.Uint64() > 768<<20 {
		runtime.GC()
	}
}

// ReadOutcome is what one ReadFile call delivered.
type ReadOutcome struct {
	Delivered []reflect.Value // deep copies taken at callback time
	Err       error
	Panic     any
	PanicSite string
	Reads     int
}

// readAll runs the library's ReadFile over a SimDisk reader, deep-copying
// every delivered record at callback time and closing its bank. cbErrAt >= 0
// makes the callback fail at that record index with cbErr.
func readAll(target reflect.Type, rd avro.Reader, cbErrAt int, cbErr error) (out ReadOutcome) {
	return readAllOut(target, false, rd, cbErrAt, cbErr)
}

// targetFor returns the struct type a reader plan decodes into.
func targetFor(full reflect.Type, project int) reflect.Type {
	switch project {
	case 1:
		if full.NumField() >= 2 {
			return projectedType(full)
		}
	case 2:
		var fields []reflect.StructField
		for i := full.NumField() - 1; i >= 0; i-- {
			f := full.Field(i)
			fields = append(fields, reflect.StructField{Name: f.Name, Type: f.Type, Tag: f.Tag})
		}
		fields = append(fields, reflect.StructField{Name: "NotInFile", Type: reflect.TypeFor[*Inner](), Tag: `json:"not_in_file"`})
		return reflect.StructOf(fields)
	case 3:
		return reflect.TypeFor[Empty]()
	}
	return full
}

// projectedEqual compares a record decoded into a projected target with the
// full value written: every field the target has (by Go name) must match, and
// fields the file lacks must be zero.
func projectedEqual(full, got reflect.Value) (bool, string) {
	t := got.Type()
	for i := 0; i < t.NumField(); i++ {
		name := t.Field(i).Name
		fv := full.FieldByName(name)
		if !fv.IsValid() {
			if !got.Field(i).IsZero() {
				return false, "." + name + ": field absent from the file is not zero"
			}
			continue
		}
		if ok, where := EqualNorm(fv, got.Field(i)); !ok {
			return false, "." + name + where
		}
	}
	return true, ""
}

// outFor builds the `out` argument of ReadFile: a struct value, or a pointer
// to a struct the caller owns.
func outFor(target reflect.Type, ptr bool) any {
	if ptr {
		return reflect.New(target).Interface()
	}
	return reflect.New(target).Elem().Interface()
}

func readAllOut(target reflect.Type, outPtr bool, rd avro.Reader, cbErrAt int, cbErr error) (out ReadOutcome) {
	defer func() {
		if p := recover(); p != nil {
			out.Panic = p
			out.PanicSite = panicSite()
		}
		if d, ok := rd.(*DiskReader); ok {
			out.Reads = d.Reads
		}
	}()
	heapHygiene()
	i := 0
	out.Err = avro.ReadFile(rd, outFor(target, outPtr), func(val unsafe.Pointer, rb *avro.ResourceBank) error {
		v := reflect.NewAt(target, val).Elem()
		out.Delivered = append(out.Delivered, DeepCopy(v))
		rb.Close()
		if i == cbErrAt {
			i++
			return cbErr
		}
		i++
		return nil
	})
	return out
}
