#!/bin/bash
# Regenerates /verif/mutants/<id>/*.diff (the hand-written sensitivity suite, DESIGN §3.7) against /repo's current files.
set -e
cd /verif
M() { # id name file old new [file old new ...]
  local id=$1 name=$2; shift 2
  mkdir -p mutants/$id
  tools/mkdiff.py mutants/$id/$name.diff "$@"
}
# ---- C08
M C08 eof-at-block-start-any-error file.go '			if errors.Is(err, io.EOF) {
				return nil
			}
			return fmt.Errorf("reading item count. %w", err)' '			if errors.Is(err, io.EOF) || errors.Is(err, io.ErrUnexpectedEOF) {
				return nil
			}
			return fmt.Errorf("reading item count. %w", err)'
M C08 length-eof-is-clean file.go '		if err != nil {
			return fmt.Errorf("reading data block length. %w", err)
		}' '		if err != nil {
			if errors.Is(err, io.EOF) {
				return nil
			}
			return fmt.Errorf("reading data block length. %w", err)
		}'
M C08 ignore-sync-read-error file.go '		if _, err := io.ReadFull(r, sig[:]); err != nil {
			return fmt.Errorf("failed reading block signature. %w", err)
		}' '		if _, err := io.ReadFull(r, sig[:]); err != nil {
			return nil
		}'
M C08 short-payload-tolerated file.go '			return buf[:l+m], err
		}
		n -= int64(c)' '			if err == io.ErrUnexpectedEOF && m > 0 {
				return buf[:l+m], nil
			}
			return buf[:l+m], err
		}
		n -= int64(c)'
M C08 header-sync-short-ok file.go '	if _, err := io.ReadFull(r, fh.Sync[:]); err != nil {
		return fh, fmt.Errorf("failed to read file sync: %w", err)
	}' '	if _, err := io.ReadFull(r, fh.Sync[:]); err != nil && err != io.ErrUnexpectedEOF {
		return fh, fmt.Errorf("failed to read file sync: %w", err)
	}'
# ---- C07
M C07 drop-sync-compare file.go '		if sig != fh.Sync {' '		if false && sig != fh.Sync {'
M C07 sync-first-8-bytes file.go '		if sig != fh.Sync {' '		if [8]byte(sig[:8]) != [8]byte(fh.Sync[:8]) {'
M C07 drop-crc-compare file.go '	if crc32.ChecksumIEEE(s.buf) != crc {' '	if false && crc32.ChecksumIEEE(s.buf) != crc {'
M C07 crc-low-bits file.go '	if crc32.ChecksumIEEE(s.buf) != crc {' '	if crc32.ChecksumIEEE(s.buf)&0xffffff != crc&0xffffff {'
M C07 wrap-callback-error file.go '			if err := cb(p, br.ExtractResourceBank()); err != nil {
				return err
			}' '			if err := cb(p, br.ExtractResourceBank()); err != nil {
				return fmt.Errorf("callback failed: %w", err)
			}'
M C07 continue-after-callback-error file.go '			if err := cb(p, br.ExtractResourceBank()); err != nil {
				return err
			}' '			if err := cb(p, br.ExtractResourceBank()); err != nil {
				if cbErr == nil {
					cbErr = err
				}
				if i+1 < count {
					continue
				}
				return cbErr
			}' file.go '	var compressed []byte
	br := &ReadBuf{}' '	var compressed []byte
	var cbErr error
	br := &ReadBuf{}'
M C07 magic-3-bytes file.go '	if fh.Magic != FileMagic {' '	if [3]byte(fh.Magic[:3]) != [3]byte(FileMagic[:3]) {'
M C07 unknown-codec-is-null file.go '		default:
			return fmt.Errorf("compression codec %s not supported", string(compress))
		}
	}

	schema, err := fh.schema()' '		default:
			decoder = nullCompression{}
		}
	}

	schema, err := fh.schema()'
M C07 revert-D1 file.go '	if _, err := d.out.ReadFrom(d.reader); err != nil {
		return nil, fmt.Errorf("deflate decode failed: %w", err)
	}' '	d.out.ReadFrom(d.reader)'
M C07 revert-D2 file.go '	var decoder compressionCodec = nullCompression{}' '	var decoder compressionCodec'
M C07 missing-schema-empty-record file.go '	if !ok {
		return schema, fmt.Errorf("no schema found in file header")
	}' '	if !ok {
		return Schema{Type: "record", Object: &SchemaObject{Name: "empty"}}, nil
	}'
# ---- C16
M C16 ignore-count-write-error filewriter.go '	if err := f.writeVarInt(w, rowCount); err != nil {
		return fmt.Errorf("writing row count: %w", err)
	}' '	f.writeVarInt(w, rowCount)'
M C16 ignore-len-write-error filewriter.go '	if err := f.writeVarInt(w, len(compressed)); err != nil {
		return fmt.Errorf("writing block len: %w", err)
	}' '	f.writeVarInt(w, len(compressed))'
M C16 ignore-sync-write-error filewriter.go '	if _, err := w.Write(f.sync[:]); err != nil {
		return fmt.Errorf("writing sync: %w", err)
	}' '	w.Write(f.sync[:])'
M C16 percent-v-block filewriter.go '		return fmt.Errorf("writing block: %w", err)
	}

	// Write the sync block' '		return fmt.Errorf("writing block: %v", err)
	}

	// Write the sync block'
M C16 percent-v-flushing encoder.go '			return fmt.Errorf("flushing: %w", err)' '			return fmt.Errorf("flushing: %v", err)'
M C16 header-error-dropped encoder.go '	if err := fw.WriteHeader(w); err != nil {
		return nil, fmt.Errorf("writing file header: %w", err)
	}' '	fw.WriteHeader(w)'
M C16 sync-before-payload-check filewriter.go '	if _, err := w.Write(compressed); err != nil {
		return fmt.Errorf("writing block: %w", err)
	}

	// Write the sync block
	if _, err := w.Write(f.sync[:]); err != nil {
		return fmt.Errorf("writing sync: %w", err)
	}' '	_, werr := w.Write(compressed)

	// Write the sync block
	if _, err := w.Write(f.sync[:]); err != nil {
		return fmt.Errorf("writing sync: %w", err)
	}
	if werr != nil {
		return fmt.Errorf("writing block: %w", werr)
	}'
# control: must stay quiet (header buffered and emitted with the first block changes F and the faulted runs alike? no: it changes the write sequence only)
# ---- C09
M C09 gt-for-ge encoder.go '	if e.wb.Len() >= e.approxBlockSize {' '	if e.wb.Len() > e.approxBlockSize {'
M C09 forget-count-reset encoder.go '		e.count = 0
		e.wb.Reset()' '		e.wb.Reset()'
M C09 forget-wb-reset encoder.go '		e.count = 0
		e.wb.Reset()' '		e.count = 0'
M C09 flush-writes-empty-block encoder.go '	if e.count > 0 {
		if err := e.fw.WriteBlock' '	if e.count >= 0 {
		if err := e.fw.WriteBlock'
M C09 uncompressed-length filewriter.go '	if err := f.writeVarInt(w, len(compressed)); err != nil {' '	if err := f.writeVarInt(w, len(block)); err != nil {'
M C09 count-low-7-bits filewriter.go '	if err := f.writeVarInt(w, rowCount); err != nil {' '	if err := f.writeVarInt(w, rowCount&0x7f); err != nil {'
M C09 snappy-stale-buffer file.go '	s.buf = snappy.Encode(s.buf[:cap(s.buf)], uncompressed)
	crc := crc32.ChecksumIEEE(uncompressed)' '	if len(uncompressed) > 0 || len(s.buf) == 0 {
		s.buf = snappy.Encode(s.buf[:cap(s.buf)], uncompressed)
	}
	crc := crc32.ChecksumIEEE(uncompressed)'
# ---- C10
M C10 bytes-alias-block-buffer bytes.go '	b := make([]byte, l)
	copy(b, data)
	*(*[]byte)(ptr) = b' '	*(*[]byte)(ptr) = data'
M C10 zero-copy-strings buffer.go '	return d.rb.ToString(d.buf[d.i-l : d.i]), nil' '	out := d.buf[d.i-l : d.i]
	return *(*string)(unsafe.Pointer(&out)), nil'
M C10 extract-keeps-bank buffer.go '	rb := d.rb
	d.rb = newResourceBank()
	return rb' '	return d.rb'
M C10 alloc-without-clear buffer.go '	typedmemclr(rt.ptyp, ptr)
	return ptr' '	return ptr'
M C10 readfile-no-clear file.go '			typedmemclr(rtyp, p)
			if err := codec.Read(br, p); err != nil {' '			if err := codec.Read(br, p); err != nil {'
M C10 sdata-reset-on-extract buffer.go '	rb := d.rb
	d.rb = newResourceBank()
	return rb' '	rb := d.rb
	d.rb = newResourceBank()
	d.rb.sData = rb.sData[len(rb.sData):]
	return rb'
M C10 alloc-wraps-when-full buffer.go '	if rt.len == rt.cap {
		newCap := rt.cap * 2' '	if rt.len == rt.cap && rt.cap >= 64 {
		rt.len = 0
	}
	if rt.len == rt.cap {
		newCap := rt.cap * 2'
M C10 close-on-callback-error file.go '			if err := cb(p, br.ExtractResourceBank()); err != nil {
				return err
			}' '			rb := br.ExtractResourceBank()
			if err := cb(p, rb); err != nil {
				rb.Close() // do not leak the resources
				return err
			}'
# ---- C11
M C11 revert-D3 map.go '		*(*unsafe.Pointer)(p) = unsafe.Pointer(reflect.MakeMap(m.rtype).Pointer())' '		*(*unsafe.Pointer)(p) = unsafe.Pointer(reflect.MakeMap(m.rtype).Pointer())
		_ = 0' map.go '	return r.Alloc(m.rtype)' '	return unsafe.Pointer(reflect.MakeMap(m.rtype).Pointer())'
M C11 array-untyped-backing array.go '	out.Data = unsafe_NewArray(elemType, out.Cap)' '	raw := make([]byte, out.Cap*int(rc.itemType.Size())+1)
	out.Data = unsafe.Pointer(&raw[0])'
M C11 pointer-slot-uintptr pointer.go 'var pointerType = reflect.TypeOf(unsafe.Pointer(nil))' 'var pointerType = reflect.TypeOf(uintptr(0))'
M C11 bank-byte-arena buffer.go '		rt.array = unsafe_NewArray(rt.ptyp, newCap)' '		arena := make([]byte, newCap*rt.size+8)
		rt.array = unsafe.Pointer(&arena[0])'
M C11 slice-header-uintptr array.go 'var sliceType = reflect.TypeOf(sliceHeader{})' 'var sliceType = reflect.TypeOf([3]uintptr{})'
# ---- C12
M C12 drop-rlock-buildcodec build.go '		registryMutex.RLock()
		cf, ok := registry[typ]
		registryMutex.RUnlock()' '		cf, ok := registry[typ]'
M C12 schema-registry-no-lock buildschema.go '	schemaRegistryMutex.RLock()
	defer schemaRegistryMutex.RUnlock()
	s, ok := schemaRegistry[typ]' '	s, ok := schemaRegistry[typ]'
M C12 tz-check-outside-lock time/parse.go '	tzLock.Lock()
	defer tzLock.Unlock()
	tz, ok := tzMap[offset]
	if !ok {' '	tz, ok := tzMap[offset]
	if !ok {
		tzLock.Lock()
		defer tzLock.Unlock()'
M C12 global-scratch-string string.go '	w.Write([]byte(s))
}' '	scratch = append(scratch[:0], s...)
	w.Write(scratch)
}

var scratch []byte'
M C12 shared-deflate-decompressor file.go '			decoder = &deflate{}
		case "snappy":' '			decoder = sharedDeflate
		case "snappy":' file.go 'type nullCompression struct{}' 'var sharedDeflate = &deflate{}

type nullCompression struct{}'
M C12 global-last-error union.go '	if index < 0 || index >= int64(len(u.codecs)) {
		return fmt.Errorf("union selector %d out of range (%d types)", index, len(u.codecs))
	}

	c := u.codecs[index]
	return c.Read(r, p)' '	if index < 0 || index >= int64(len(u.codecs)) {
		return fmt.Errorf("union selector %d out of range (%d types)", index, len(u.codecs))
	}

	c := u.codecs[index]
	return c.Read(r, p)
}

var lastSelector byte

func noteSelector(b byte) byte {
	lastSelector = b
	return b' union.go '	index /= 2
	if (index)&0xFE != 0 {
		return fmt.Errorf("union selector %d out of range (2 types)", index)
	}

	if index == u.nonNull {
		return u.codec.Read(r, p)
	}
	return nil
}

func (u *unionOneAndNullCodec) Skip' '	index = noteSelector(index / 2)
	if (index)&0xFE != 0 {
		return fmt.Errorf("union selector %d out of range (2 types)", index)
	}

	if index == u.nonNull {
		return u.codec.Read(r, p)
	}
	return nil
}

func (u *unionOneAndNullCodec) Skip'
M C12 record-codec-lazy-cache record.go 'func (rc *recordCodec) Skip(r *ReadBuf) error {
	for i, f := range rc.fields {' 'func (rc *recordCodec) Skip(r *ReadBuf) error {
	rc.skips++
	for i, f := range rc.fields {' record.go '	rtype  reflect.Type
	fields []recordCodecField' '	rtype  reflect.Type
	fields []recordCodecField
	skips  int'
# ---- C06
M C06 revert-D4 buffer.go '	if l < 0 || l > len(d.buf)-d.i {
		return nil, io.EOF' '	if l+d.i > len(d.buf) {
		return nil, io.EOF'
M C06 string-negative-length string.go '	if l < 0 {
		return fmt.Errorf("cannot make string with length %d", l)
	}' ''
M C06 union-selector-range union.go '	if index < 0 || index >= int64(len(u.codecs)) {
		return fmt.Errorf("union selector %d out of range (%d types)", index, len(u.codecs))
	}

	c := u.codecs[index]
	return c.Read(r, p)' '	if index > int64(len(u.codecs)) {
		return fmt.Errorf("union selector %d out of range (%d types)", index, len(u.codecs))
	}

	c := u.codecs[index]
	return c.Read(r, p)'
M C06 revert-D8 array.go '		*sh = rc.resizeSlice(*sh, int(min(count, int64(r.Len())+1)))' '		*sh = rc.resizeSlice(*sh, int(count))'
M C06 revert-D5-negative file.go '		if dataLength < 0 {
			return fmt.Errorf("negative data block length %d", dataLength)
		}' ''
M C06 revert-D7 file.go '	if len(compressed) < 4 {
		return nil, errors.New("snappy block too short to hold its checksum")
	}' ''
M C06 revert-D9-array build.go '	if schema.Object == nil {
		return nil, fmt.Errorf("array schema does not have items")
	}' ''
M C06 revert-D10 time/parse.go '		if len(remaining) == 0 {
			return time.Time{}, fmt.Errorf("too short to contain fractional seconds")
		}
		// Fractional' '		// Fractional'
M C06 readn-trusts-length file.go '	const chunk = 1 << 16
	for n > 0 {' '	if n > 0 && int64(cap(buf)) < n {
		buf = make([]byte, 0, n)
	}
	const chunk = 1 << 16
	for n > 0 {'
M C06 bytes-alloc-before-check bytes.go '	data, err := r.Next(int(l))
	if err != nil {
		return fmt.Errorf("failed to read %d bytes of bytes body. %w", l, err)
	}
	// We need to copy the data to avoid data issues
	b := make([]byte, l)' '	if l < 0 {
		return fmt.Errorf("negative bytes length %d", l)
	}
	b := make([]byte, l)
	data, err := r.Next(int(l))
	if err != nil {
		return fmt.Errorf("failed to read %d bytes of bytes body. %w", l, err)
	}
	// We need to copy the data to avoid data issues'
ls mutants/*/ | head -80
# ---- benign: property-preserving changes; EVERY check must stay quiet on them (false-alarm controls)
M benign lazy-header encoder.go '	if err := fw.WriteHeader(w); err != nil {
		return nil, fmt.Errorf("writing file header: %w", err)
	}

	return &Encoder[T]{' '	return &Encoder[T]{' encoder.go '	if e.count > 0 {
		if err := e.fw.WriteBlock' '	if !e.headerDone {
		if err := e.fw.WriteHeader(e.w); err != nil {
			return fmt.Errorf("writing file header: %w", err)
		}
		e.headerDone = true
	}
	if e.count > 0 {
		if err := e.fw.WriteBlock' encoder.go '	wb              *WriteBuf
	count           int' '	wb              *WriteBuf
	count           int
	headerDone      bool'
M benign single-write-block filewriter.go '	// Write the count of rows in the block
	if err := f.writeVarInt(w, rowCount); err != nil {
		return fmt.Errorf("writing row count: %w", err)
	}

	compressed, err := f.compressor.compress(block)
	if err != nil {
		return fmt.Errorf("compressing block: %w", err)
	}

	// Write the (compressed) block size
	if err := f.writeVarInt(w, len(compressed)); err != nil {
		return fmt.Errorf("writing block len: %w", err)
	}

	// Write the block data.
	if _, err := w.Write(compressed); err != nil {
		return fmt.Errorf("writing block: %w", err)
	}

	// Write the sync block
	if _, err := w.Write(f.sync[:]); err != nil {
		return fmt.Errorf("writing sync: %w", err)
	}
	return nil' '	compressed, err := f.compressor.compress(block)
	if err != nil {
		return fmt.Errorf("compressing block: %w", err)
	}
	buf := binary.AppendVarint(nil, int64(rowCount))
	buf = binary.AppendVarint(buf, int64(len(compressed)))
	buf = append(buf, compressed...)
	buf = append(buf, f.sync[:]...)
	if _, err := w.Write(buf); err != nil {
		return fmt.Errorf("writing block: %w", err)
	}
	return nil'
M benign clear-on-close buffer.go '	typedmemclr(rt.ptyp, ptr)
	return ptr' '	return ptr' buffer.go '		t := &rb.types[i]
		t.len = 0' '		t := &rb.types[i]
		for k := 0; k < t.len; k++ {
			typedmemclr(t.ptyp, unsafe.Pointer(uintptr(t.array)+uintptr(k*t.size)))
		}
		t.len = 0'
M benign no-pooling buffer.go '	resourceBankPool.Put(rb)
}' '	_ = rb // banks are not recycled
}'
M benign array-grow-double array.go '	out := sliceHeader{
		Cap: in.Len + len,
		Len: in.Len,
	}' '	out := sliceHeader{
		Cap: max(in.Len+len, 2*in.Cap),
		Len: in.Len,
	}'
M C09 early-flush encoder.go '	if e.wb.Len() >= e.approxBlockSize {' '	if e.wb.Len() >= e.approxBlockSize/2 {'
M benign error-wording file.go '			return fmt.Errorf("reading item count. %w", err)' '			return fmt.Errorf("could not read the block record count: %w", err)' file.go '			return fmt.Errorf("sync block does not match. Have %X, want %X", sig, fh.Sync)' '			return fmt.Errorf("block sync marker mismatch")'
M benign deflate-best-speed file.go 'flate.NewWriter(&d.out, flate.DefaultCompression)' 'flate.NewWriter(&d.out, flate.BestSpeed)'
M benign registry-plain-mutex build.go '	registryMutex sync.RWMutex' '	registryMutex rwAsMutex' build.go 'func Register(typ reflect.Type, f CodecBuildFunc) {' 'type rwAsMutex struct{ sync.Mutex }

func (m *rwAsMutex) RLock()   { m.Lock() }
func (m *rwAsMutex) RUnlock() { m.Unlock() }

func Register(typ reflect.Type, f CodecBuildFunc) {'
M benign tz-rwmutex time/parse.go '	tzLock sync.Mutex' '	tzLock sync.RWMutex' time/parse.go '	tzLock.Lock()
	defer tzLock.Unlock()
	tz, ok := tzMap[offset]
	if !ok {
		tz = time.FixedZone("", offset)
		tzMap[offset] = tz
	}
	return tz' '	tzLock.RLock()
	tz, ok := tzMap[offset]
	tzLock.RUnlock()
	if ok {
		return tz
	}
	tzLock.Lock()
	defer tzLock.Unlock()
	if tz, ok = tzMap[offset]; !ok {
		tz = time.FixedZone("", offset)
		tzMap[offset] = tz
	}
	return tz'
M benign readfile-bigger-chunks file.go '	const chunk = 1 << 16' '	const chunk = 1 << 12'
ls mutants/benign
