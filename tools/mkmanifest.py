#!/usr/bin/env python3
"""Regenerates /verif/MANIFEST.json. Edit CHECKS / NOT_APPLICABLE here."""
import json, os, subprocess

ROOT = os.path.dirname(os.path.dirname(os.path.abspath(__file__)))

TECH = "deterministic simulation with fault injection (seeded plans, SimDisk faults, child-process workers, minimised replay files)"

CHECKS = {
 "C08": dict(
   category="fault_enumeration",
   text="Every crash point of the writer is executed: for each generated valid file (real Encoder and reference writer; 3 codecs + no-codec header; block partitions incl. empty and one-record blocks; 17 curated record types) ALL cut positions 0..len are read back through a SimDisk reader with plan-chosen chunking, and judged against the independent container model (records of blocks with complete payload, success iff cut is at header end or a block end) and against the fault-free read of the same file. Enumeration per file is complete; the set of files is a seeded sample.",
   design_ref="§5 C08",
   note="Trusts the reference container parser (run on intact files only) and the prefix model of a crash. Files > 3000 bytes: boundary cuts ±1 plus 300 sampled cuts instead of all.",
   technique="deterministic simulation: writer crash at every byte (fault enumeration over crash points) + seeded file plans"),
 "C07": dict(
   category="fault_enumeration",
   text="One fault per run on top of an always-run fault-free baseline: sites are enumerated from the independent container model — every bit of every sync marker incl. the header's, every bit of every snappy checksum, every bit of one block's compressed payload (quick: sampled bits), every bit of the magic, header without schema / with unknown codec names / without codec entry, callback failure at EVERY record index. Damage must be refused with earlier blocks delivered exactly and nothing past the damaged block; 'decompressor rejects' is decided by calling flate / snappy+CRC directly. The fault-free clause demands exactly the declared records equal to the written values.",
   design_ref="§5 C07",
   note="Files are a seeded sample (18 curated types, 3 codecs + no-codec, both writers). When flate accepts an altered stream nothing is demanded (deflate has no checksum) and the read is not executed.",
   technique="deterministic simulation: SimDisk stored-byte faults enumerated per file from a container model + callback fault at every index"),
 "C09": dict(
   category="exploration",
   text="Seeded call histories over {Encode(record of chosen size), Flush} run against a fault-free SimDisk; after EVERY call the bytes on disk are parsed by the independent container model and compared with a framing model (pending list, per-record encodings from the library's own codec): only complete blocks visible, count>=1, exact byte length, header's sync, payload == concatenation of the next 'count' encodings in order, block emitted as soon as pending bytes reach the block size and not before (unless Flush is called), Flush leaves nothing pending and emits no block when nothing is pending, conservation.",
   design_ref="§5 C09",
   note="Sampled histories (length 1..200, block sizes incl. 0/1/2/near-record-size/exact sums/huge, 3 codecs, zero-width/one-byte/padded/nested records, records up to 3 MiB, record counts and byte lengths at varint boundaries). A block emitted by Encode must hold at least the block size (NewEncoderFor's documented contract); when the header is written is not judged. The observed encoder's writer is fault-free: what an encoder owes after its own failed write is not stated by the property and not judged. In a sixth of the plans a second encoder lives in the process on a writer that fails, and is used (also after its failure) between the observed encoder's calls; the observed encoder's output is judged as before.",
   technique="deterministic simulation: seeded call histories against SimDisk with a reference framing model checked after every step"),
 "C16": dict(
   category="fault_enumeration",
   text="For each seeded history (NewEncoderFor+Encode/Flush, or NewFileWriter+WriteHeader+WriteBlock*) the fault-free run gives the reference stream F and W writes; then EVERY write index k is failed in five variants (error; short write of 1, len/2, len-1 bytes; error after all bytes were taken; the error value is a bare sentinel, a *fs.PathError around it, or a value answering Temporary()/Timeout() true) with the sync marker pinned through crypto/rand.Reader. Required: no panic, the call that issued write k returns an error wrapping the injected one, bytes accepted are byte-for-byte a prefix of F.",
   design_ref="§5 C16",
   note="Histories are a seeded sample; per history the fault enumeration over k is complete. Record types without multi-entry maps only. Behaviour after the first failed call is not judged.",
   technique="deterministic simulation: SimDisk write-fault enumeration (every write index x 5 variants) against the fault-free run of the same history"),
 "C10": dict(
   category="exploration",
   text="1..3 ReadFile tasks run as coroutines over their own multi-block files (3 codecs, both writers) interleaved by the plan, plus a direct ReadBuf/ResourceBank user; the bank pool is the simulator's (hooks): each bank request gets the oldest / newest / another free bank or a fresh one, as the plan says. After EVERY operation: every record whose bank is open equals the deep copy taken at delivery and equals the same record read with fresh banks only; every Alloc is all-zero on return although the previous owner poisoned the memory before closing; all live allocations and interned strings are pairwise disjoint; no bank is issued to two live users.",
   design_ref="§5 C10",
   note="Sampled histories (<=150 operations incl. step/close/abort/restart of readers, gc+churn, allocation bursts, 70 unrelated zone offsets parsed in between, direct ReadBuf use with Reset+decode). The simulated pool over-approximates sync.Pool (any previously closed bank or a new one). Nothing is inspected after its bank is closed. Additional oracles: same record read with fresh banks only; each record alone vs after its predecessors; one retain-all read per file (zone names of decoded times included).",
   technique="deterministic simulation: interleaved reader coroutines + simulator-owned bank pool (plan-chosen recycling), invariants after every step"),
 "C11": dict(
   category="exploration",
   text="The garbage collector's schedule is owned by the simulator (GOGC=off; full collection + size-class churn exactly at the numbered GC points a plan selects: callbacks, every SimDisk read/write, after ReadFile, around bank closes, and inside records between fields / array items / map entries through Probe fields registered via avro.Register). Each plan runs twice: A without any collection, B with the plan's collections; every value B holds must equal A's after each collection and at the end; encoder output of B must equal A's (bytes, or decoded datums where multi-entry maps are involved).",
   design_ref="§5 C11",
   note="Manifestation of a wrongly freed object depends on allocator reuse (stable in all trials; churn covers pointerful and pointer-free size classes). Shapes: *map, **map, []*map, *map of records, maps of maps/slices/records, *[]T, []*T, **T, *[]byte, [][]T, *[N]byte, **[N]byte, []*[N]byte and all of them behind pointer/slice/map.",
   technique="deterministic simulation: simulator-owned GC schedule (GC points as injected events) with run-A/run-B metamorphic oracle"),
 "C12": dict(
   category="exploration",
   text="2..6 real goroutines run seeded lists of independent operations (build codecs, Register/RegisterSchema own types with versioned builders, decode/encode with SHARED codecs, ReadFile, Encoder, close banks received from other goroutines, SchemaForType incl. a struct over types registered with composite schemas, schema text 30-60 levels deep, timestamp parsing with seeded zone offsets, times as scaled longs, decoding a torn record with a shared codec, bank churn with an ownership mark) under a token scheduler that releases one goroutine at a time from the plan's pre-drawn schedule and is invisible to the Go race detector (//go:norace spin on a plain word). Judge 1: the race detector's report stream must be empty. Judge 2: every operation's result equals the result of that goroutine's list re-executed alone. The simulated bank pool contributes exactly sync.Pool's Put->Get edge per bank.",
   design_ref="§5 C12",
   note="Sampled schedules. Race detector limits apply (bounded shadow history, one report per stack pair per process). Interleavings are chosen at yield points only: every SimDisk read/write, callback, operation boundary, and (hooks) before the registry, schema-registry and tz-cache locks and at pool get/put — an atomicity violation between two instructions with no yield point between them and no data race (e.g. an unlocked load-clone-store of an atomic pointer) is out of reach (DESIGN §13.1). Half of the plans use 1-4 operation kinds only and a third never recycle a bank, because lock hand-overs and recycled banks are legitimate happens-before edges that would otherwise order everything. SUPPLEMENT (1 plan in 8, labelled 'parallel burst', outside the deterministic simulation and not exactly replayable — the replay command retries up to 40 times): all goroutines are released at once on 8 OS threads and repeat their lists 30-5000 times under the race detector and the run-alone oracle, for atomicity violations that have neither a yield point nor a data race.",
   technique="deterministic simulation: seeded token scheduler over real goroutines (race-detector-invisible) + Go race detector as happens-before judge + run-alone equivalence oracle"),
 "C06": dict(
   category="exploration",
   text="SCOPED to storage faults on valid artifacts (DESIGN §5 C06): valid files from the real Encoder and from the reference writer (18 curated types + 8 wire schemas reaching every codec kind, 3 codecs + no-codec) are damaged by 1..3 faults per case — bit flips, byte overwrites, zeroed/junk sectors, ranges stored twice or lost, truncation, read errors, structure-aware rewrites of single encoded fields (24 varint classes incl. negative/zero/max/overflowing/unterminated varints and counts whose product with an item width wraps around 64 bits; body classes; raw and consistent variants), header varint rewrites, schema-text damage — and read through ReadFile (full, projected and empty target) and Schema.Codec+Codec.Read/Skip on damaged block bodies. Every 12th (quick: 30th) plan ENUMERATES every (field site x class x variant) of its artifact. Oracle: no panic, no worker death, CPU budget, allocation <= 16 MiB + 200 x (input + decompressed size).",
   design_ref="§5 C06",
   note="Timestamp text is also offered to the parser directly (24 texts per plan: a well-formed RFC 3339 time with one component at or beyond its boundary, decoded as time.Time, *time.Time and null.Time). Workers are built with checkptr: a store or conversion that leaves its allocation is a crash at that instruction. NOT covered: free-standing fuzzing of SchemaFromString or Codec.Read with unrelated byte strings (pure functions of their input; not a simulation target). Known finding D11 (unbounded count of zero-width items) is recorded by input class in known_findings.json; a hang / OOM outside that input class is still reported.",
   technique="deterministic simulation: SimDisk stored-byte / torn-write / read-error faults and structure-aware single-field rewrites on valid artifacts; child-process workers with CPU and allocation oracles"),
}

NOT_APPLICABLE = {
 "C01": "pure function of (struct type, values, codec, block size): no schedule, clock, fault or crash in it; its history-dependent parts (flush pattern, block boundaries, state carried between records) are decided under C09 and C10. Type/value generation is property-based testing, not simulation (DESIGN §6).",
 "C02": "pure function of the values written; needs an independent decoder over generated types, with no fault, schedule or crash to vary (DESIGN §6).",
 "C03": "ranges over schema x datum x writer choices x target type: an input space, nothing the environment does (DESIGN §6).",
 "C04": "projection/skip equivalence is a pure function of (schema, bytes, target type) (DESIGN §6).",
 "C05": "type-soundness of decoder construction is a pure function of the (schema, Go type) pair and the bytes; no schedule or fault for a simulator to vary (DESIGN §6).",
 "C13": "codecs from caller-supplied schemas: pure function of (schema, type, value) (DESIGN §6).",
 "C14": "schema JSON parse/serialise: pure function of a document (DESIGN §6).",
 "C15": "schema generation: pure function of a Go type given registry contents; no hidden state to perturb (DESIGN §6).",
 "C17": "primitive encodings: finite pure domains best enumerated exhaustively; nothing to schedule or fault (DESIGN §6).",
 "C18": "timestamp parsing vs time.Parse: pure function of a string (DESIGN §6).",
 "C19": "logical date/timestamp mapping: pure function of an integer or an instant (DESIGN §6).",
 "C20": "quantifies over type trees and registration orders, sequentially; its only environment-dependent aspect (registries under concurrent use) is inside C12 (DESIGN §6).",
}

# planned simulation targets whose check is not built yet (kept honest while the build is in progress)
PENDING = {}

def main():
    hooks_commits = []
    try:
        out = subprocess.run(["git", "-C", "/repo", "log", "--format=%H %s"], capture_output=True, text=True).stdout
        for line in out.splitlines():
            h, _, subj = line.partition(" ")
            if subj.startswith("verif hook"):
                hooks_commits.append(h)
    except Exception:
        pass
    checks = []
    for pid in sorted(CHECKS):
        c = CHECKS[pid]
        checks.append({
            "property_id": pid,
            "quick_cmd": f"./check {pid} quick",
            "thorough_cmd": f"./check {pid} thorough",
            "evidence_file": f"/verif/evidence/{pid}.json",
            "replay_cmd_template": "./check replay {path}",
            "engine": "sim",
            "level_claimed": {"category": c["category"], "text": c["text"], "design_ref": c["design_ref"]},
            "level_note": c["note"],
            "technique": c["technique"],
        })
    na = [{"property_id": k, "reason": v} for k, v in sorted({**NOT_APPLICABLE, **PENDING}.items())]
    m = {
        "version": 1,
        "setup_cmd": "./check build",
        "hooks": {
            "guard": "verif",
            "enable": "go build -tags verif (the check script builds the harness module /verif/sim with `replace github.com/philpearl/avro => /repo` and -tags verif and -gcflags=all=-d=checkptr; C12 additionally -race)",
            "baseline_off_cmd": "./check baseline-off",
            "source_commits": hooks_commits,
            "add_only": True,
        },
        "engines": [{
            "name": "sim",
            "path": "/verif/sim",
            "serves_properties": sorted(CHECKS),
            "kind_free_text": TECH,
        }],
        "checks": checks,
        "not_applicable": na,
        "notes": "See DESIGN.md. exit 0 = held, 1 = VIOLATION line printed, 2 = infrastructure trouble. VERIF_SEED selects the plan stream; VERIF_REPO selects the tree under test (default /repo). known_findings.json lists repaired defects (status fixed, suppress nothing) and recorded ones (status known).",
    }
    with open(os.path.join(ROOT, "MANIFEST.json"), "w") as f:
        json.dump(m, f, indent=1)
        f.write("\n")

if __name__ == "__main__":
    main()
