#!/usr/bin/env python3
"""Emit the sensitivity tables (markdown) from mutants/RESULTS.tsv and seeded/*/meta.json."""
import json, glob, os, collections
root = os.path.dirname(os.path.dirname(os.path.abspath(__file__)))
print("#### Hand-written mutants (tools/wave.sh quick)\n")
print("| property | mutant | repo suite | check exit | first violation reported |")
print("|---|---|---|---|---|")
rows = {}
for line in open(os.path.join(root, "mutants/RESULTS.tsv")):
    f = line.rstrip("\n").split("\t")
    if len(f) < 8: continue
    rows[(f[0], f[1])] = f
for (pid, name), f in sorted(rows.items()):
    cls = f[6].replace('violation ', '').replace('|', '\\|')
    verdict = {"1": "1 (caught)", "0": "0 (NOT caught)", "2": "2 (infra)"}.get(f[4], f[4])
    if f[3] != "pass": verdict = "—"
    print(f"| {pid} | {name} | {f[3]} | {verdict} | {cls} |")
print("\n#### Changes seeded by independent sub-agents (tools/seeded.sh)\n")
print("| id | what the change does | needs | confirmed | checks run → exit (first violation) |")
print("|---|---|---|---|---|")
for d in sorted(glob.glob(os.path.join(root, "seeded/*/meta.json"))):
    m = json.load(open(d))
    sid = os.path.basename(os.path.dirname(d))
    runs = "; ".join(f"{c['check']}→{c['exit']}" + (f" ({c['first'].replace('violation ','')[:70]})" if c.get('first') else "") for c in m.get("checks_run", []))
    s = (m.get("summary") or "")[:160].replace("|", "\\|").replace("\n", " ")
    n = (m.get("needs") or "")[:140].replace("|", "\\|").replace("\n", " ")
    print(f"| {sid} | {s} | {n} | {'yes' if m.get('confirmed') else 'NO'} | {runs.replace('|', chr(92)+'|')} |")
