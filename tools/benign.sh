#!/bin/bash
# tools/benign.sh [tier] — every property-preserving control patch through ALL checks; any exit != 0 is a false alarm.
tier="${1:-quick}"
cd /verif
for m in ${BENIGN_DIR:-mutants/benign}/*.diff; do
  out=$(tools/mutant.sh "$m" "${BENIGN_PROPS:-C06 C07 C08 C09 C10 C11 C12 C16}" "$tier" 2>&1)
  echo "$out" | grep -q "suite FAILS" && { echo "BENIGN $(basename $m): repo suite fails (drop it)"; continue; }
  echo "$out" | grep -q "does not apply" && { echo "BENIGN $(basename $m): does not apply"; continue; }
  bad=$(echo "$out" | grep "MUTANT: .* exit=" | grep -v "exit=0" | sed 's/MUTANT: //')
  if [ -z "$bad" ]; then echo "BENIGN $(basename $m): all checks quiet (${BENIGN_PROPS:-all 8})"; else echo "BENIGN $(basename $m): FALSE ALARM"; echo "$bad"; echo "$out" | grep "^violation\|^INFRA" | head -5; fi
done
