#!/bin/bash
# tools/mutant.sh <patch.diff> <property> [tier] — sensitivity run on a scratch copy of /repo.
# Copies /repo (working tree) outside /repo and /verif, applies the patch, runs the
# repository's own tests (must pass for the mutant to be interesting), then the check with
# VERIF_REPO pointing at the copy. The copy is removed afterwards.
set -u
patch="$(readlink -f "$1")"; prop="$2"; tier="${3:-quick}"
GO=/root/go/pkg/mod/golang.org/toolchain@v0.0.1-go1.24.0.linux-amd64/bin/go
export GOTOOLCHAIN=local GOFLAGS=-mod=mod GOPROXY=off GOSUMDB=off
scratch="$(mktemp -d /tmp/mutant.XXXXXX)"
trap 'cd /; rm -rf "$scratch"' EXIT
rsync -a --exclude .git /repo/ "$scratch/repo/"
( cd "$scratch/repo" && patch -p1 --no-backup-if-mismatch < "$patch" >/dev/null ) || { echo "MUTANT: patch does not apply"; exit 3; }
if [ "${SKIP_SUITE:-0}" != 1 ]; then
  ( cd "$scratch/repo" && $GO test -vet=off -count=1 ./... >"$scratch/suite.log" 2>&1 ) || { echo "MUTANT: repo suite FAILS with this patch (not interesting)"; tail -15 "$scratch/suite.log"; exit 4; }
  echo "MUTANT: repo suite passes"
fi
# separate build dir so the main build is not disturbed
export VERIF_REPO="$scratch/repo" VERIF_BUILD_DIR="$scratch/build" VERIF_EVIDENCE_DIR="$scratch/evidence" VERIF_REPLAY_DIR="${KEEP_REPLAYS:-$scratch/replays}"
cd /verif
for pr in $prop; do
  ./check "$pr" "$tier" > "$scratch/out.$pr.log" 2>&1; rc=$?
  echo "MUTANT: $(basename "$patch") $pr $tier exit=$rc  $(grep -a -c '^VIOLATION' "$scratch/out.$pr.log") VIOLATION line(s)"
  grep -a -E '^(violation|VIOLATION|KNOWN|INFRA|BUILD)' "$scratch/out.$pr.log" | head -6
  [ "${VERBOSE:-0}" = 1 ] && cat "$scratch/out.$pr.log"
  # infrastructure trouble must be diagnosable afterwards
  if [ "$rc" = 2 ]; then mkdir -p /tmp/infra-logs; cp "$scratch/out.$pr.log" "/tmp/infra-logs/$(basename "$patch" .diff)-$pr-$$.log"; fi
  # every replay file the check wrote must reproduce, in a fresh process, on the same mutated tree
  for rf in $(grep -a '^VIOLATION' "$scratch/out.$pr.log" | sed 's/.*replay=//'); do
    if ./check replay "$rf" > "$scratch/replay.log" 2>&1; then rr="NOT-REPRODUCED"; else rr=$(grep -a -o 'REPRODUCED[-A-Z]*' "$scratch/replay.log" | head -1); fi
    echo "MUTANT: replay $(basename "$rf"): ${rr:-?}"
  done
done
exit 0
