#!/opt/veriftools/pyvenv/bin/python
import json, sys, glob, jsonschema
m=json.load(open('/verif/MANIFEST.json')); s=json.load(open('/root/.vp/MANIFEST.schema.json'))
jsonschema.validate(m,s); print("manifest ok:", [c['property_id'] for c in m['checks']])
props=[json.loads(l)['id'] for l in open('/verif/properties.jsonl')]
claimed={c['property_id'] for c in m['checks']}; na={x['property_id'] for x in m.get('not_applicable',[])}
assert claimed|na==set(props) and not (claimed&na), (set(props)-claimed-na, claimed&na)
s=json.load(open('/root/.vp/EVIDENCE.schema.json'))
for f in sorted(glob.glob('/verif/evidence/*.json')):
    e=json.load(open(f)); jsonschema.validate(e,s)
    print("evidence ok", f, e['tier'], e['coverage']['evaluations'], e['coverage']['distinct_nontrivial'], 'viol', e.get('violations'))
