#!/bin/bash
# tools/wave.sh [tier] [id…] — run every hand-written mutant of the given properties (default all) through its property's check.
# Appends one line per mutant to mutants/RESULTS.tsv: id, mutant, tier, suite(pass/fail), exit, #VIOLATION, first class, seconds
tier="${1:-quick}"; shift || true
ids="${*:-C06 C07 C08 C09 C10 C11 C12 C16}"
cd /verif
for id in $ids; do
  for m in mutants/$id/*.diff; do
    [ -e "$m" ] || continue
    t0=$(date +%s)
    out=$(tools/mutant.sh "$m" "$id" "$tier" 2>&1)
    t1=$(date +%s)
    suite=pass; echo "$out" | grep -q "suite FAILS" && suite=FAIL
    echo "$out" | grep -q "does not apply" && suite=NOAPPLY
    rc=$(echo "$out" | sed -n 's/.* exit=\([0-9]*\) .*/\1/p' | head -1)
    nv=$(echo "$out" | sed -n 's/.* exit=[0-9]*  \([0-9]*\) VIOLATION.*/\1/p' | head -1)
    cls=$(echo "$out" | grep -m1 '^violation' | cut -c1-110)
    printf "%s\t%s\t%s\t%s\t%s\t%s\t%s\t%s\n" "$id" "$(basename $m .diff)" "$tier" "$suite" "${rc:--}" "${nv:--}" "$cls" "$((t1-t0))" | tee -a mutants/RESULTS.tsv
  done
done
