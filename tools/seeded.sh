#!/bin/bash
# tools/seeded.sh <agent-out-dir> <k> <name> "<props>" [tier]
# Confirms a sub-agent's seeded change in a scratch worktree of /repo (suite passes with it, demo fails with it,
# demo passes without it), runs the given checks against it, and files it under /verif/seeded/<name>/.
set -u
out="$1"; k="$2"; name="$3"; props="$4"; tier="${5:-quick}"
GO=/root/go/pkg/mod/golang.org/toolchain@v0.0.1-go1.24.0.linux-amd64/bin/go
export GOTOOLCHAIN=local GOFLAGS=-mod=mod GOPROXY=off GOSUMDB=off
diff="$out/mut$k.diff"; demo="$out/mut${k}_demo_test.go"; meta="$out/mut$k.json"
wt="$(mktemp -d /tmp/seedwt.XXXXXX)"; rmdir "$wt"
git -C /repo worktree add -q --detach "$wt" HEAD || exit 3
cleanup() { cd /; git -C /repo worktree remove --force "$wt" 2>/dev/null; rm -rf "$wt"; }
trap cleanup EXIT
pkgdir="$wt"
grep -q '^package time' "$demo" && pkgdir="$wt/time"
grep -q '^package null' "$demo" && pkgdir="$wt/null"
race=""; grep -qi '"-race\|-race ' "$meta" && race="-race"
run_demo() { ( cd "$pkgdir" && $GO test $race -count=1 -run "TestSeededDemo$k\$" . ) > "$wt/demo.log" 2>&1; }
cp "$demo" "$pkgdir/"
run_demo; r_without=$?
( cd "$wt" && git apply "$diff" ) || { echo "SEEDED $name: diff does not apply"; exit 3; }
( cd "$wt" && $GO test -vet=off -count=1 ./... ) > "$wt/suite.log" 2>&1; r_suite=$?
run_demo; r_with=$?
echo "SEEDED $name: demo-without=$r_without (want 0) suite-with=$r_suite (want 0; demo file present) demo-with=$r_with (want !=0) race=$race"
# the suite run above includes the demo; rerun suite without the demo file for a clean verdict
rm -f "$pkgdir/$(basename "$demo")"
( cd "$wt" && $GO test -vet=off -count=1 ./... ) > "$wt/suite.log" 2>&1; r_suite=$?
echo "SEEDED $name: existing suite with change: exit=$r_suite"
confirmed=no
if [ $r_without -eq 0 ] && [ $r_suite -eq 0 ] && [ $r_with -ne 0 ]; then confirmed=yes; fi
echo "SEEDED $name: confirmed=$confirmed"
dest=/verif/seeded/$name; mkdir -p "$dest"
cp "$diff" "$dest/patch.diff"; cp "$demo" "$dest/$(basename "$demo")"
results=""
rm -rf "$dest/replays"
for pr in $props; do
  o=$(KEEP_REPLAYS="$dest/replays" SKIP_SUITE=1 /verif/tools/mutant.sh "$diff" "$pr" "$tier" 2>&1)
  rc=$(echo "$o" | sed -n 's/.* exit=\([0-9]*\) .*/\1/p' | head -1)
  cls=$(echo "$o" | grep -m1 '^violation' | cut -c1-140)
  echo "SEEDED $name: check $pr $tier exit=$rc $cls"
  echo "$o" | grep "MUTANT: replay" | sed "s/^MUTANT:/SEEDED $name:/"
  results="$results{\"check\":\"$pr\",\"tier\":\"$tier\",\"exit\":${rc:-null},\"first\":$(python3 -c 'import json,sys;print(json.dumps(sys.argv[1]))' "$cls")},"
done
python3 - "$meta" "$dest/meta.json" "$confirmed" "$r_without" "$r_suite" "$r_with" "[${results%,}]" "$race" <<'PY'
import json,sys
meta=json.load(open(sys.argv[1]))
meta.update({"confirmed":sys.argv[3]=="yes","confirmation":{"demo_without_change_exit":int(sys.argv[4]),"existing_suite_with_change_exit":int(sys.argv[5]),"demo_with_change_exit":int(sys.argv[6]),"race_flag":sys.argv[8],"how":"tools/seeded.sh: scratch git worktree of /repo HEAD; go1.24.0; demo run before and after `git apply patch.diff`; existing suite run with the change"},"checks_run":json.loads(sys.argv[7])})
json.dump(meta,open(sys.argv[2],"w"),indent=1)
PY
# keep one (the smallest) replay file per seeded change
if [ -d "$dest/replays" ]; then
  keep=$(ls -S "$dest/replays"/*.json 2>/dev/null | tail -1)
  for f in "$dest/replays"/*.json; do [ "$f" = "$keep" ] || rm -f "$f"; done
fi
