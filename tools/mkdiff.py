#!/usr/bin/env python3
"""mkdiff.py out.diff file old new [file old new ...] — unified diff of /repo with exact-string replacements."""
import sys, difflib
out = sys.argv[1]; args = sys.argv[2:]
res = []
edits = {}
for i in range(0, len(args), 3):
    f, old, new = args[i:i+3]
    s = edits.get(f) or open('/repo/'+f).read()
    assert s.count(old) >= 1, (f, old)
    edits[f] = s.replace(old, new, 1)
for f, s in edits.items():
    a = open('/repo/'+f).read().splitlines(True)
    res += difflib.unified_diff(a, s.splitlines(True), 'a/'+f, 'b/'+f)
open(out, 'w').write(''.join(res))
